/-
Model of the parameter-list pipeline of pydoctor (property C14):

* `astbuilder.ModuleVistor._handleFunctionDef` — the part that turns `ast.arguments` into a list of
  `inspect.Parameter` (`get_default`, `add_arg`, the five loops), `_annotations_from_function`
  (a dict keyed by parameter name, values run through `astutils.unstring_annotation`), the return
  annotation with the `-> None` omission, the `try: Signature(...) except ValueError` branch, and
  the overload bookkeeping (`existing_func`, `FunctionOverload`, `func.signature`).
* CPython 3.12 `inspect.Signature.__init__` (parameter validation), `Parameter.__str__` and
  `Signature.__str__` (layout: `/`, bare `*`, `*args`, `**kw`, `name=default` / `name: ann = default`).
* `pages.format_signature` / `format_function_def` / `format_overloads` (which signatures are shown).
* CPython's reading of a parameter list (`parameters` / `star_etc` / `kwds` rules of the PEG grammar)
  at token level: `parseSig`.

Defaults are opaque atoms and so are the string-free leaves of annotations (their rendering is
property C15). The structure kept on annotations is what this code looks at: string constants,
subscripts and the `Literal` exception (`astutils.unstring_annotation` / `_AnnotationStringParser`),
and the literal `None` (`is_none_literal`).  Parameter names are atoms too (`Nat`); CPython's parser
guarantees they are identifiers, which is all `Parameter.__init__` checks about them.

Import-free, executable, total. Python exceptions are explicit `Res.error` results.
-/
namespace Signature

/-- `inspect._ParameterKind` (an IntEnum: the order matters to `Signature.__init__`). -/
inductive Kind | posOnly | posOrKw | varPos | kwOnly | varKw
  deriving DecidableEq, Repr, Inhabited

def Kind.toNat : Kind → Nat
  | .posOnly => 0 | .posOrKw => 1 | .varPos => 2 | .kwOnly => 3 | .varKw => 4

/-- Annotation expressions, with the structure `astutils._AnnotationStringParser` looks at:
names (the names `Literal` and `Annotated` apart; `aliasRef` = a dotted name spelled otherwise that
`ctx.expandName` resolves to `typing.Literal` / `typing.Annotated` — resolution itself is the `Names`
layer's, C04), the constant `None`, string constants (whose content parses as one expression `inner`,
or does not: `badStr`), attributes (attribute name `0` stands for `Literal`, `2` for `Annotated`),
subscripts, and two kinds of nodes with two expression children that go through `generic_visit`
(a 2-tuple and `a | b`). Every other string-free expression is an opaque `atom`. -/
inductive TName | literal | annotated
  deriving DecidableEq, Repr, Inhabited

inductive AnnE
  | atom (a : Nat)
  | literalName
  | annotatedName
  | aliasRef (a : Nat) (t : TName)
  | noneLit
  | str (inner : AnnE)
  | badStr (a : Nat)
  | attr (value : AnnE) (name : Nat)
  | sub (value slice : AnnE)
  | tup (a b : AnnE)
  | bor (a b : AnnE)
  deriving DecidableEq, Repr, Inhabited

/-- `_is_typing_name(value, name)`: spelled `<name>` or `<anything>.<name>`, or a dotted name that
`ctx.expandName` resolves to `typing.<name>` / `typing_extensions.<name>`. -/
def AnnE.isTypingName : AnnE → TName → Bool
  | .literalName, .literal => true
  | .attr _ 0, .literal => true
  | .annotatedName, .annotated => true
  | .attr _ 2, .annotated => true
  | .aliasRef _ t, t' => t == t'
  | _, _ => false

/-- before commit c06a302 only the spelling counted, and only for `Literal` -/
def AnnE.isLiteralRefOld : AnnE → Bool
  | .literalName => true
  | .attr _ 0 => true
  | _ => false

/-- `_AnnotationStringParser(ctx).visit(node)`. First component: the returned node, `none` = `_parse_string`
raised (`SyntaxError`; since 1297c95 `ValueError`, `MemoryError`, `RecursionError` are caught alike). Second component: the *original* node after the visit — `ast.NodeTransformer`
works in place: `generic_visit` assigns a visited child back into its parent (`setattr(node, field, new)`
for a single child such as `Attribute.value`, `BinOp.left`, `BinOp.right`; `old_value[:] = new_values` for
a list such as `Tuple.elts`, only once every element has been visited), so when a later string raises,
what was already replaced stays replaced.
`visit_Constant` parses a string and visits the parsed tree (the Constant itself is never modified);
`visit_Subscript` visits the value; when the *visited* value designates `typing.Literal` the slice is kept
verbatim; when it designates `typing.Annotated` and the slice is a tuple only the first element is
visited (a new Tuple is built, the metadata stay as written); otherwise the slice is visited; a NEW
Subscript is built (the original one keeps its children). -/
def AnnE.visit : AnnE → Option AnnE × AnnE
  | .atom a => (some (.atom a), .atom a)
  | .literalName => (some .literalName, .literalName)
  | .annotatedName => (some .annotatedName, .annotatedName)
  | .aliasRef a t => (some (.aliasRef a t), .aliasRef a t)
  | .noneLit => (some .noneLit, .noneLit)
  | .str e => ((e.visit).1, .str e)
  | .badStr a => (none, .badStr a)
  | .attr v n =>
    match v.visit with
    | (some v', _) => (some (.attr v' n), .attr v' n)
    | (none, vm) => (none, .attr vm n)
  | .sub v (.tup a b) =>
    match v.visit with
    | (none, vm) => (none, .sub vm (.tup a b))
    | (some v', vm) =>
      if v'.isTypingName .literal then (some (.sub v' (.tup a b)), .sub vm (.tup a b))
      else if v'.isTypingName .annotated then
        match a.visit with
        | (some a', am) => (some (.sub v' (.tup a' b)), .sub vm (.tup am b))
        | (none, am) => (none, .sub vm (.tup am b))
      else match (AnnE.tup a b).visit with
        | (some s', sm) => (some (.sub v' s'), .sub vm sm)
        | (none, sm) => (none, .sub vm sm)
  | .sub v s =>
    match v.visit with
    | (none, vm) => (none, .sub vm s)
    | (some v', vm) =>
      if v'.isTypingName .literal then (some (.sub v' s), .sub vm s)
      else match s.visit with
        | (some s', sm) => (some (.sub v' s'), .sub vm sm)
        | (none, sm) => (none, .sub vm sm)
  | .tup a b =>
    match a.visit with
    | (none, am) => (none, .tup am b)
    | (some a', am) =>
      match b.visit with
      | (none, bm) => (none, .tup am bm)
      | (some b', _) => (some (.tup a' b'), .tup a' b')
  | .bor a b =>
    match a.visit with
    | (none, am) => (none, .bor am b)
    | (some a', _) =>
      match b.visit with
      | (none, bm) => (none, .bor a' bm)
      | (some b', _) => (some (.bor a' b'), .bor a' b')

/-- the visit as it was before commit c06a302 (historical; used by counterexamples only) -/
def AnnE.visitOld : AnnE → Option AnnE × AnnE
  | .atom a => (some (.atom a), .atom a)
  | .literalName => (some .literalName, .literalName)
  | .annotatedName => (some .annotatedName, .annotatedName)
  | .aliasRef a t => (some (.aliasRef a t), .aliasRef a t)
  | .noneLit => (some .noneLit, .noneLit)
  | .str e => ((e.visitOld).1, .str e)
  | .badStr a => (none, .badStr a)
  | .attr v n =>
    match v.visitOld with
    | (some v', _) => (some (.attr v' n), .attr v' n)
    | (none, vm) => (none, .attr vm n)
  | .sub v s =>
    match v.visitOld with
    | (none, vm) => (none, .sub vm s)
    | (some v', vm) =>
      if v'.isLiteralRefOld then (some (.sub v' s), .sub vm s)
      else match s.visitOld with
        | (some s', sm) => (some (.sub v' s'), .sub vm sm)
        | (none, sm) => (none, .sub vm sm)
  | .tup a b =>
    match a.visitOld with
    | (none, am) => (none, .tup am b)
    | (some a', am) =>
      match b.visitOld with
      | (none, bm) => (none, .tup am bm)
      | (some b', _) => (some (.tup a' b'), .tup a' b')
  | .bor a b =>
    match a.visitOld with
    | (none, am) => (none, .bor am b)
    | (some a', _) =>
      match b.visitOld with
      | (none, bm) => (none, .bor a' bm)
      | (some b', _) => (some (.bor a' b'), .bor a' b')

def AnnE.unstringOld (e : AnnE) : AnnE :=
  match e.visitOld with
  | (some r, _) => r
  | (none, orig) => orig

/-- the visit's result; `none` = `SyntaxError` -/
def AnnE.unstringE (e : AnnE) : Option AnnE := e.visit.1

/-- `astutils.unstring_annotation`: on `SyntaxError` a warning is reported and "the original node" is
returned — which the transformer may already have modified in place. -/
def AnnE.unstring (e : AnnE) : AnnE :=
  match e.visit with
  | (some r, _) => r
  | (none, orig) => orig

/-- `ast.arg`: name and optional annotation. -/
structure Arg where
  name : Nat
  ann : Option AnnE
  deriving DecidableEq, Repr, Inhabited

/-- `ast.arguments` plus the `returns` field of the `FunctionDef`. Defaults are atoms. -/
structure Args where
  posonly : List Arg
  args : List Arg
  vararg : Option Arg
  kwonly : List Arg
  kwDefaults : List (Option Nat)
  kwarg : Option Arg
  defaults : List Nat
  returns : Option AnnE
  deriving DecidableEq, Repr, Inhabited

/-- `inspect.Parameter` as built by `add_arg` (`Parameter.empty` = `none`). -/
structure Param where
  name : Nat
  kind : Kind
  default : Option Nat
  ann : Option AnnE
  deriving DecidableEq, Repr, Inhabited

/-- `inspect.Signature`: parameters and return annotation. -/
structure Sig where
  params : List Param
  ret : Option AnnE
  deriving DecidableEq, Repr, Inhabited

inductive Err | assertionError | indexError
  deriving DecidableEq, Repr

inductive Res (α : Type) | ok (a : α) | error (e : Err)
  deriving DecidableEq, Repr

/-! ### `_annotations_from_function`: a Python dict keyed by name (`'return'` for the return type) -/

inductive Key | name (n : Nat) | ret
  deriving DecidableEq, Repr

/-- `d[k] = v` on an insertion-ordered dict: overwrite in place, else append. -/
def dictSet {V : Type} : List (Key × V) → Key → V → List (Key × V)
  | [], k, v => [(k, v)]
  | (k', v') :: rest, k, v => if k' = k then (k', v) :: rest else (k', v') :: dictSet rest k v

/-- `d.get(k)` -/
def dictGet {V : Type} : List (Key × V) → Key → Option V
  | [], _ => none
  | (k', v') :: rest, k => if k' = k then some v' else dictGet rest k

/-- `_get_all_args()`: posonlyargs, args, vararg, kwonlyargs, kwarg — in this order. -/
def allArgs (a : Args) : List Arg :=
  a.posonly ++ a.args ++ a.vararg.toList ++ a.kwonly ++ a.kwarg.toList

/-- `_get_all_ast_annotations()` -/
def allAstAnnotations (a : Args) : List (Key × Option AnnE) :=
  (allArgs a).map (fun x => (Key.name x.name, x.ann)) ++
    (match a.returns with | some r => [(Key.ret, some r)] | none => [])

/-- the dict comprehension: `{name: None if value is None else unstring_annotation(value)}` -/
def annotationsFromFunction (a : Args) : List (Key × Option AnnE) :=
  (allAstAnnotations a).foldl (fun d kv => dictSet d kv.1 (kv.2.map AnnE.unstring)) []

/-- `annotations.get(name)` where a stored `None` and a missing key are the same thing to the caller -/
def annGet (d : List (Key × Option AnnE)) (k : Key) : Option AnnE :=
  match dictGet d k with
  | some (some e) => some e
  | _ => none

/-! ### `_handleFunctionDef`: parameter list -/

/-- `get_default(index)`; `default_offset = num_pos_args - len(defaults)` is a Python int and may be
negative, the subtraction is done in `Int` as written. -/
def getDefault (numPos : Nat) (defaults : List Nat) (index : Nat) : Res (Option Nat) :=
  if index < numPos then
    let idx : Int := (index : Int) - ((numPos : Int) - (defaults.length : Int))
    if idx < 0 then .ok none
    else match defaults[idx.toNat]? with
      | some d => .ok (some d)
      | none => .error .indexError
  else .error .assertionError

/-- `add_arg(name, kind, default)` -/
def mkParam (d : List (Key × Option AnnE)) (name : Nat) (kind : Kind) (default : Option Nat) : Param :=
  { name := name, kind := kind, default := default, ann := annGet d (.name name) }

/-- `for index, arg in enumerate(xs, start=index): add_arg(arg.arg, kind, get_default(index))` -/
def addPositional (d : List (Key × Option AnnE)) (numPos : Nat) (defaults : List Nat) (kind : Kind) :
    List Arg → Nat → List Param → Res (List Param)
  | [], _, acc => .ok acc
  | x :: xs, index, acc =>
    match getDefault numPos defaults index with
    | .ok dflt => addPositional d numPos defaults kind xs (index + 1) (acc ++ [mkParam d x.name kind dflt])
    | .error e => .error e

/-- `for arg, default in zip(kwonlyargs, kw_defaults): add_arg(arg.arg, KEYWORD_ONLY, default)` -/
def addKwonly (d : List (Key × Option AnnE)) : List Arg → List (Option Nat) → List Param → List Param
  | x :: xs, dv :: ds, acc => addKwonly d xs ds (acc ++ [mkParam d x.name .kwOnly dv])
  | _, _, acc => acc

/-- the parameter list handed to `Signature(...)` -/
def buildParams (a : Args) : Res (List Param) :=
  let numPos := a.posonly.length + a.args.length
  let d := annotationsFromFunction a
  match addPositional d numPos a.defaults .posOnly a.posonly 0 [] with
  | .error e => .error e
  | .ok p1 =>
    match addPositional d numPos a.defaults .posOrKw a.args a.posonly.length p1 with
    | .error e => .error e
    | .ok p2 =>
      let p3 := match a.vararg with
        | some v => p2 ++ [mkParam d v.name .varPos none]
        | none => p2
      if a.kwonly.length = a.kwDefaults.length then
        let p4 := addKwonly d a.kwonly a.kwDefaults p3
        let p5 := match a.kwarg with
          | some k => p4 ++ [mkParam d k.name .varKw none]
          | none => p4
        .ok p5
      else .error .assertionError

/-- `return_annotation`: empty when there is none or when it is the literal `None` (after unstringing) -/
def returnAnnotation (a : Args) : Option AnnE :=
  match annGet (annotationsFromFunction a) .ret with
  | none => none
  | some e => if e = .noneLit then none else some e

/-! ### `inspect.Signature.__init__` validation -/

inductive VErr | wrongOrder | nonDefaultFollowsDefault | duplicateName
  deriving DecidableEq, Repr

/-- the `for param in parameters` loop; `none` = accepted. -/
def validateLoop : List Param → Kind → Bool → List Nat → Option VErr
  | [], _, _, _ => none
  | p :: ps, topKind, seenDefault, seen =>
    if p.kind.toNat < topKind.toNat then some .wrongOrder
    else
      let topKind' := if p.kind.toNat > topKind.toNat then p.kind else topKind
      let positional := p.kind = .posOnly ∨ p.kind = .posOrKw
      if positional ∧ p.default = none ∧ seenDefault = true then some .nonDefaultFollowsDefault
      else
        let seenDefault' := if positional ∧ p.default ≠ none then true else seenDefault
        if p.name ∈ seen then some .duplicateName
        else validateLoop ps topKind' seenDefault' (seen ++ [p.name])

def validate (ps : List Param) : Option VErr := validateLoop ps .posOnly false []

/-- does `inspect.Signature(ps)` accept the list? -/
def valid (ps : List Param) : Bool := (validate ps).isNone

/-- `try: Signature(parameters, return_annotation=…) except ValueError: report; Signature()`.
Second component: was the ValueError branch taken (a warning is reported)? -/
def signatureOf (a : Args) : Res (Sig × Bool) :=
  match buildParams a with
  | .error e => .error e
  | .ok ps =>
    match validate ps with
    | none => .ok ({ params := ps, ret := returnAnnotation a }, false)
    | some _ => .ok ({ params := [], ret := none }, true)

/-! ### `Parameter.__str__`, `Signature.__str__` at token level -/

inductive Token
  | lparen | rparen | comma | slash | star | dstar | colon | eq | arrow | ellipsis
  | name (n : Nat) | dflt (d : Nat) | ann (e : AnnE)
  deriving DecidableEq, Repr

/-- `Parameter.__str__` (`name=default` and `name: ann = default` differ in spacing only). -/
def paramStr (p : Param) : List Token :=
  let formatted := [Token.name p.name]
  let formatted := match p.ann with
    | some a => formatted ++ [.colon, .ann a]
    | none => formatted
  let formatted := match p.default with
    | some d => formatted ++ [.eq, .dflt d]
    | none => formatted
  match p.kind with
  | .varPos => .star :: formatted
  | .varKw => .dstar :: formatted
  | _ => formatted

/-- the loop of `Signature.__str__`: the `result` list, with the two flags
`render_pos_only_separator`, `render_kw_only_separator` threaded through. -/
def renderLoop : List Param → Bool → Bool → List (List Token)
  | [], posSep, _ => if posSep then [[.slash]] else []
  | p :: ps, posSep, kwSep =>
    let pre1 : List (List Token) × Bool :=
      if p.kind = .posOnly then ([], true)
      else if posSep then ([[.slash]], false)
      else ([], posSep)
    let pre2 : List (List Token) × Bool :=
      if p.kind = .varPos then ([], false)
      else if p.kind = .kwOnly ∧ kwSep = true then ([[.star]], false)
      else ([], kwSep)
    pre1.1 ++ pre2.1 ++ [paramStr p] ++ renderLoop ps pre1.2 pre2.2

/-- `', '.join(result)` -/
def joinComma : List (List Token) → List Token
  | [] => []
  | [x] => x
  | x :: y :: rest => x ++ .comma :: joinComma (y :: rest)

/-- `' -> {anno}'` when there is a return annotation -/
def retTokens : Option AnnE → List Token
  | some a => [.arrow, .ann a]
  | none => []

/-- `Signature.__str__` -/
def render (s : Sig) : List Token :=
  [.lparen] ++ joinComma (renderLoop s.params false true) ++ [.rparen] ++ retTokens s.ret

/-- `pages.format_signature`: `str(func.signature) if func.signature else "(...)"`. -/
def formatSignature : Option Sig → List Token
  | some s => render s
  | none => [.lparen, .ellipsis, .rparen]

/-! ### CPython's reading of a parameter list (token level)

Grammar (Grammar/python.gram, 3.12), with expressions as single tokens:
```
params     : '(' [parameters] ')' ['->' expression]
parameters : slash_no_default param_no_default* param_with_default* [star_etc]
           | slash_with_default param_with_default* [star_etc]
           | param_no_default+ param_with_default* [star_etc]
           | param_with_default+ [star_etc]
           | star_etc
star_etc   : '*' param_no_default param_maybe_default* [kwds]
           | '*' ',' param_maybe_default+ [kwds]
           | kwds
kwds       : '**' param_no_default
```
A trailing comma is not produced by `render` and not accepted here. -/

inductive Item
  | slash
  | star
  | starArg (a : Arg)
  | dstarArg (a : Arg)
  | plain (a : Arg) (default : Option Nat)
  deriving DecidableEq, Repr

/-- one comma-separated piece of the list -/
def parseSeg : List Token → Option Item
  | [.slash] => some .slash
  | [.star] => some .star
  | [.star, .name n] => some (.starArg ⟨n, none⟩)
  | [.star, .name n, .colon, .ann a] => some (.starArg ⟨n, some a⟩)
  | [.dstar, .name n] => some (.dstarArg ⟨n, none⟩)
  | [.dstar, .name n, .colon, .ann a] => some (.dstarArg ⟨n, some a⟩)
  | [.name n] => some (.plain ⟨n, none⟩ none)
  | [.name n, .colon, .ann a] => some (.plain ⟨n, some a⟩ none)
  | [.name n, .eq, .dflt d] => some (.plain ⟨n, none⟩ (some d))
  | [.name n, .colon, .ann a, .eq, .dflt d] => some (.plain ⟨n, some a⟩ (some d))
  | _ => none

/-- split at top-level commas (all commas are top level: expressions are single tokens) -/
def splitComma : List Token → List (List Token)
  | [] => [[]]
  | t :: r =>
    if t = .comma then [] :: splitComma r
    else match splitComma r with
      | s :: ss => (t :: s) :: ss
      | [] => [[t]]

/-- the tokens up to the first `)` and what follows it -/
def untilRparen : List Token → Option (List Token × List Token)
  | [] => none
  | t :: r =>
    if t = .rparen then some ([], r)
    else match untilRparen r with
      | some (inner, rest) => some (t :: inner, rest)
      | none => none

/-- every piece must be a well-formed item -/
def parseSegs : List (List Token) → Option (List Item)
  | [] => some []
  | s :: ss =>
    match parseSeg s, parseSegs ss with
    | some i, some is => some (i :: is)
    | _, _ => none

/-- longest prefix of `param` items (`param_no_default* param_with_default*` / `param_maybe_default*`) -/
def takePlain : List Item → List (Arg × Option Nat) × List Item
  | .plain a d :: r => let (l, rest) := takePlain r; ((a, d) :: l, rest)
  | r => ([], r)

/-- `param_no_default* param_with_default*`: once a default is given all later positional
parameters need one ("parameter without a default follows parameter with a default").
Returns the `defaults` list. -/
def positionalDefaults (l : List (Option Nat)) : Option (List Nat) :=
  let tail := l.dropWhile (fun o => o.isNone)
  if tail.all (fun o => o.isSome) then some (tail.filterMap id) else none

/-- `[kwds]` then end of list -/
def parseKwds : List Item → Option (Option Arg)
  | [] => some none
  | [.dstarArg k] => some (some k)
  | _ => none

/-- `[star_etc]` -/
def parseStarEtc : List Item → Option (Option Arg × List (Arg × Option Nat) × Option Arg)
  | .star :: r =>
    let (kw, rest) := takePlain r
    if kw = [] then none   -- "named arguments must follow bare *"
    else (parseKwds rest).map fun k => (none, kw, k)
  | .starArg v :: r =>
    let (kw, rest) := takePlain r
    (parseKwds rest).map fun k => (some v, kw, k)
  | r => (parseKwds r).map fun k => (none, [], k)

/-- `slash_no_default` / `slash_with_default`: the parameters before a `/` are positional-only;
`/` needs at least one parameter before it. Result: (posonly, rest of the positional run, what follows). -/
def splitSlash (pos1 : List (Arg × Option Nat)) (r1 : List Item) :
    Option (List (Arg × Option Nat) × List (Arg × Option Nat) × List Item) :=
  match r1 with
  | .slash :: r2 =>
    if pos1 = [] then none
    else let (pos2, r3) := takePlain r2; some (pos1, pos2, r3)
  | _ => some ([], pos1, r1)

/-- `parameters` → `ast.arguments` -/
def parseItems (items : List Item) (returns : Option AnnE) : Option Args :=
  let (pos1, r1) := takePlain items
  match splitSlash pos1 r1 with
  | none => none
  | some (po, pa, r) =>
    match positionalDefaults ((po ++ pa).map (·.2)), parseStarEtc r with
    | some defaults, some (vararg, kw, kwarg) =>
      some { posonly := po.map (·.1), args := pa.map (·.1), vararg := vararg,
             kwonly := kw.map (·.1), kwDefaults := kw.map (·.2), kwarg := kwarg,
             defaults := defaults, returns := returns }
    | _, _ => none

/-- `['->' expression]` and nothing else after the closing parenthesis -/
def parseTail : List Token → Option (Option AnnE)
  | [] => some none
  | [.arrow, .ann a] => some (some a)
  | _ => none

/-- `'(' [parameters] ')' ['->' expression]` read back as `ast.arguments` + `returns`. -/
def parseSig : List Token → Option Args
  | .lparen :: toks =>
    match untilRparen toks with
    | none => none
    | some (inner, tail) =>
      match parseTail tail with
      | none => none
      | some ret =>
        if inner = [] then parseItems [] ret
        else match parseSegs (splitComma inner) with
          | some items => parseItems items ret
          | none => none
  | _ => none

/-! ### What a parameter list *means* (specification side)

Python's rule for `ast.arguments`: positional parameters are `posonlyargs ++ args`; `defaults`
belongs to the *last* `len(defaults)` of them; `kw_defaults` is parallel to `kwonlyargs`. -/

/-- the default of the `i`-th positional parameter: the last `len(defaults)` of them have one. -/
def alignAt (numPos : Nat) (defaults : List Nat) (i : Nat) : Option Nat :=
  if i < numPos - defaults.length then none else defaults[i - (numPos - defaults.length)]?

/-- positional parameters: the `i`-th one (positional-only first) has default `alignAt … i`. -/
def specPositional (a : Args) : List Param :=
  let n := a.posonly.length + a.args.length
  List.zipWith (fun (x : Arg) (i : Nat) =>
      ({ name := x.name, kind := .posOnly, default := alignAt n a.defaults i, ann := x.ann } : Param))
    a.posonly (List.range' 0 a.posonly.length)
  ++ List.zipWith (fun (x : Arg) (i : Nat) =>
      ({ name := x.name, kind := .posOrKw, default := alignAt n a.defaults i, ann := x.ann } : Param))
    a.args (List.range' a.posonly.length a.args.length)

def specParams (a : Args) : List Param :=
  specPositional a
    ++ (a.vararg.toList.map fun v => { name := v.name, kind := .varPos, default := none, ann := v.ann })
    ++ ((a.kwonly.zip a.kwDefaults).map fun (x, d) => { name := x.name, kind := .kwOnly, default := d, ann := x.ann })
    ++ (a.kwarg.toList.map fun k => { name := k.name, kind := .varKw, default := none, ann := k.ann })

/-- the two spellings the property allows the display to normalise: string annotations are shown
unquoted, a `-> None` return annotation is omitted. Nothing else. -/
def Arg.norm (x : Arg) : Arg := { x with ann := x.ann.map AnnE.unstring }

def normReturns (r : Option AnnE) : Option AnnE :=
  match r.map AnnE.unstring with
  | some .noneLit => none
  | r' => r'

def Args.norm (a : Args) : Args :=
  { posonly := a.posonly.map Arg.norm, args := a.args.map Arg.norm, vararg := a.vararg.map Arg.norm,
    kwonly := a.kwonly.map Arg.norm, kwDefaults := a.kwDefaults, kwarg := a.kwarg.map Arg.norm,
    defaults := a.defaults, returns := normReturns a.returns }

/-- what CPython's parser guarantees about the `ast.arguments` of any parsed `def`
(`names distinct` is enforced by the compiler's symbol table, not by `ast.parse`; see `WF`). -/
def Args.parserWF (a : Args) : Bool :=
  a.defaults.length ≤ a.posonly.length + a.args.length ∧ a.kwDefaults.length = a.kwonly.length

def Args.names (a : Args) : List Nat := (allArgs a).map (·.name)

/-- decidable `Nodup` on names -/
def nodupB : List Nat → Bool
  | [] => true
  | x :: xs => !(xs.contains x) && nodupB xs

/-- a function definition Python accepts: parser shape + distinct parameter names. -/
def Args.WF (a : Args) : Bool := a.parserWF && nodupB a.names

/-- read a displayed signature back as the list of parameters it declares -/
def parse (toks : List Token) : Option (List Param × Option AnnE) :=
  (parseSig toks).map fun a => (specParams a, a.returns)

/-! ### Overloads: the bookkeeping in `_handleFunctionDef` and what the page shows -/

/-- `model.Function` as far as signatures go -/
structure Func where
  signature : Option Sig      -- `None` until a non-overload definition is seen
  overloads : List Sig        -- `FunctionOverload.signature`, in source order
  deriving DecidableEq, Repr, Inhabited

/-- one `def` statement in a scope: name, its arguments, and `isOverload` = one of its decorators
*resolves* (`parent.expandName`) to `typing.overload` / `typing_extensions.overload` — a fact about the
resolved name, not the spelling (`@overload`, `@typing.overload`, `@t.overload`, a renamed import …);
name resolution itself belongs to the `Names` layer (C04). -/
structure Def where
  name : Nat
  isOverload : Bool
  args : Args
  deriving DecidableEq, Repr

/-- `parent.contents` restricted to functions: insertion-ordered dict name → Function. -/
abbrev Contents := List (Key × Func)

/-- `existing_func` when it is a Function that already has overloads (it is re-pushed, not recreated) -/
def reuseOf (c : Contents) (name : Nat) : Option Func :=
  match dictGet c (.name name) with
  | some f => if f.overloads ≠ [] then some f else none
  | none => none

/-- "overload appeared after primary function": the `def` is reported and skipped -/
def skipOf (reuse : Option Func) (isOverload : Bool) : Bool :=
  match reuse with
  | some f => f.signature.isSome && isOverload
  | none => false

/-- `_handleFunctionDef` for one `def` (not a property, parent not a function). The step never fails
for parser-shaped arguments; errors of `buildParams` propagate. -/
def stepDef (c : Contents) (df : Def) : Res Contents :=
  let reuse := reuseOf c df.name
  if skipOf reuse df.isOverload then .ok c
  else
    -- `push(existing_func)` or `pushFunction(func_name)` (a new object replaces the old entry)
    let func : Func := match reuse with | some f => f | none => { signature := none, overloads := [] }
    match signatureOf df.args with
    | .error e => .error e
    | .ok (sig, _) =>
      let func' : Func :=
        if df.isOverload then { func with overloads := func.overloads ++ [sig] }
        else { func with signature := some sig }
      .ok (dictSet c (.name df.name) func')

def runDefs : Contents → List Def → Res Contents
  | c, [] => .ok c
  | c, d :: ds =>
    match stepDef c d with
    | .ok c' => runDefs c' ds
    | .error e => .error e

/-- What the function's entry on the page shows (`format_function_def` + `format_overloads`):
with overloads, only the overloads' signatures — each its own; otherwise the function's. -/
def displayed (f : Func) : List (List Token) :=
  if f.overloads ≠ [] then f.overloads.map (fun s => formatSignature (some s))
  else [formatSignature f.signature]

/-! ### Which `def`s become documented functions: the decorator loop of `_handleFunctionDef`

```
if isinstance(parent, model.Function): raise SkipNode          # inner functions are ignored
for d in node.decorator_list:
    deco_name = node2dottedname(d.func if isinstance(d, ast.Call) else d)
    if deco_name is None: continue
    if isinstance(parent, model.Class):
        if deco_name[-1].endswith('property') or deco_name[-1].endswith('Property'): is_property = True
        elif deco_name in (['classmethod'], ['builtins', 'classmethod']): is_classmethod = True
        elif deco_name in (['staticmethod'], ['builtins', 'staticmethod']): is_staticmethod = True
        elif len(deco_name) >= 2 and deco_name[-1] in ('setter', 'deleter'): func_name = '.'.join(deco_name[-2:])
    if parent.expandName('.'.join(deco_name)) in ('typing.overload', 'typing_extensions.overload'):
        is_overload_func = True
if is_property: …_handlePropertyDef…; raise SkipNode
```
Name *resolution* (`expandName`) is the `Names` layer's business (C04): here it is the flag
`resolvesToOverload` of each decorator; what this loop decides with it is modelled. -/

inductive ParentKind | module | cls | func
  deriving DecidableEq, Repr

/-- one decorator: `node2dottedname` of the decorator (of its `.func` when it is a call) — `none` when
it is not a dotted name; a dotted name always has at least one component — and whether that dotted
name expands to `typing.overload` / `typing_extensions.overload` in the parent's scope. -/
structure Deco where
  dotted : Option (List Char × List (List Char))    -- first component, further components
  resolvesToOverload : Bool
  deriving DecidableEq, Repr

/-- `str.endswith` -/
def endsWith (s suffix : List Char) : Bool :=
  suffix.length ≤ s.length && s.drop (s.length - suffix.length) == suffix

/-- `'.'.join(parts)` -/
def joinDot : List (List Char) → List Char
  | [] => []
  | [x] => x
  | x :: y :: rest => x ++ '.' :: joinDot (y :: rest)

/-- the strings the decorator loop and `format_function_def` compare against -/
def sProperty : List Char := ['p','r','o','p','e','r','t','y']
def sPropertyCap : List Char := ['P','r','o','p','e','r','t','y']
def sClassmethod : List Char := ['c','l','a','s','s','m','e','t','h','o','d']
def sStaticmethod : List Char := ['s','t','a','t','i','c','m','e','t','h','o','d']
def sBuiltins : List Char := ['b','u','i','l','t','i','n','s']
def sSetter : List Char := ['s','e','t','t','e','r']
def sDeleter : List Char := ['d','e','l','e','t','e','r']
def sDotSetter : List Char := '.' :: sSetter
def sDotDeleter : List Char := '.' :: sDeleter

structure DecoState where
  isProperty : Bool
  isClassmethod : Bool
  isStaticmethod : Bool
  isOverload : Bool
  funcName : List Char
  deriving DecidableEq, Repr

def decoStep (parentIsClass : Bool) (st : DecoState) (d : Deco) : DecoState :=
  match d.dotted with
  | none => st
  | some (first, more) =>
    let comps := first :: more
    let last := comps.getLastD first            -- deco_name[-1]
    let st1 :=
      if parentIsClass then
        if endsWith last sProperty || endsWith last sPropertyCap then { st with isProperty := true }
        else if comps = [sClassmethod] ∨ comps = [sBuiltins, sClassmethod] then { st with isClassmethod := true }
        else if comps = [sStaticmethod] ∨ comps = [sBuiltins, sStaticmethod] then { st with isStaticmethod := true }
        else if comps.length ≥ 2 ∧ (last = sSetter ∨ last = sDeleter) then
          { st with funcName := joinDot (comps.drop (comps.length - 2)) }   -- '.'.join(deco_name[-2:])
        else st
      else st
    if d.resolvesToOverload then { st1 with isOverload := true } else st1

inductive FuncKind | plain | staticMethod | classMethod
  deriving DecidableEq, Repr

/-- what `_handleFunctionDef` makes of a `def` statement -/
inductive DefOutcome
  | skippedInner                                   -- the parent is a function
  | property (name : List Char)                    -- an Attribute of kind PROPERTY named `node.name`; no signature
  | function (name : List Char) (kind : FuncKind) (isOverload : Bool)
  deriving DecidableEq, Repr

def handleDef (parent : ParentKind) (nodeName : List Char) (decos : List Deco) : DefOutcome :=
  if parent = .func then .skippedInner
  else
    let st := decos.foldl (decoStep (parent = .cls))
      { isProperty := false, isClassmethod := false, isStaticmethod := false, isOverload := false,
        funcName := nodeName }
    if st.isProperty then .property nodeName
    else
      let kind :=
        if st.isStaticmethod then (if st.isClassmethod then .plain else .staticMethod)   -- both: reported, kind untouched
        else if st.isClassmethod then .classMethod
        else .plain
      .function st.funcName kind st.isOverload

/-! ### `pages.format_function_def` / `format_overloads` / `format_signature` with its fallbacks -/

/-- `s.rindex('.')`; `none` = `ValueError` -/
def rindexDot (s : List Char) : Option Nat :=
  let i := s.reverse.findIdx (· == '.')
  if i < s.length then some (s.length - 1 - i) else none

/-- the name written after `def`: `func_name[:func_name.rindex('.')]` for `x.setter` / `x.deleter`. -/
def shownName (funcName : List Char) : Option (List Char) :=
  if endsWith funcName sDotSetter || endsWith funcName sDotDeleter then
    (rindexDot funcName).map fun i => funcName.take i
  else some funcName

/-- `format_signature`: `"(...)"` when there is no signature, or when rendering it raises
(`strRaises`: `str(func.signature)` / `html2stan` raised; an error is reported). -/
def formatSignatureX (sig : Option Sig) (strRaises : Bool) : List Token :=
  if strRaises then [.lparen, .ellipsis, .rparen] else formatSignature sig

/-- one `def` line on the page: keyword, name, signature -/
structure DefLine where
  isAsync : Bool
  name : List Char
  sig : List Token
  deriving DecidableEq, Repr

/-- `format_function_def(func.name, func.is_async, func)` for a Function: nothing when it has overloads. -/
def formatFunctionDef (funcName : List Char) (isAsync : Bool) (f : Func) : Option (List DefLine) :=
  if f.overloads ≠ [] then some []
  else (shownName funcName).map fun n => [{ isAsync := isAsync, name := n, sig := formatSignature f.signature }]

/-- `format_overloads(func)`: one `def` line per overload, with the overload's own signature. -/
def formatOverloads (funcName : List Char) (isAsync : Bool) (f : Func) : Option (List DefLine) :=
  (shownName funcName).map fun n =>
    f.overloads.map fun s => { isAsync := isAsync, name := n, sig := formatSignature (some s) }

end Signature
