import PdModel.PostProcess
import PdModel.Proto
/-! Line protocol:
`postprocess subclasses <b ids to report, comma list> <class> <class> …` with class = `<id>:<base ids or N, comma list or ->`
  answer: `ok <b>=<comma list of subclasses> …`
`postprocess kinds <order, comma list> <member> …` with member = `<cls>:<name>:<c|i|o>` (index = position) and then
  `| <cls>=<mro comma list> …`
  answer: `ok <final kinds, one letter per member>` -/
namespace PostProcess

def parseClass (tok : String) : Option (Nat × List (Option Nat)) :=
  match tok.splitOn ":" with
  | [c, bs] => do
    let c ← c.toNat?
    let bs ← if bs == "-" then some [] else
      (bs.splitOn ",").mapM fun b => if b == "N" then some none else b.toNat?.map some
    some (c, bs)
  | _ => none

def kindOf (s : String) : Option Kind :=
  match s with | "c" => some .classVar | "i" => some .instVar | "o" => some .other | _ => none

def showKind : Kind → String
  | .classVar => "c" | .instVar => "i" | .other => "o"

def parseMember (tok : String) : Option (Nat × Nat × Kind) :=
  match tok.splitOn ":" with
  | [c, n, k] => do some ((← c.toNat?), (← n.toNat?), (← kindOf k))
  | _ => none

def parseMro (tok : String) : Option (Nat × List Nat) :=
  match tok.splitOn "=" with
  | [c, l] => do some ((← c.toNat?), (← Proto.natList l))
  | _ => none

def handle (args : List String) : String :=
  match args with
  | "subclasses" :: qs :: cls =>
    match Proto.natList qs, cls.mapM parseClass with
    | some qs, some cs =>
      "ok " ++ " ".intercalate (qs.map fun b => toString b ++ "=" ++ Proto.showNatList (subclasses cs b))
    | _, _ => "bad-op"
  | "implementedby" :: qs :: decls =>
    -- `postprocess implementedby <interface ids> <implementer>:<interface id or N> …`
    let parseDecl (tok : String) : Option (Nat × Option Nat) :=
      match tok.splitOn ":" with
      | [x, i] => do some ((← x.toNat?), (← if i == "N" then some none else i.toNat?.map some))
      | _ => none
    match Proto.natList qs, decls.mapM parseDecl with
    | some qs, some ds =>
      "ok " ++ " ".intercalate (qs.map fun i => toString i ++ "=" ++ Proto.showNatList (implementedBy ds i))
    | _, _ => "bad-op"
  | "kinds" :: order :: rest =>
    let ms := rest.takeWhile (· ≠ "|")
    let mros := (rest.dropWhile (· ≠ "|")).drop 1
    match Proto.natList order, ms.mapM parseMember, mros.mapM parseMro with
    | some order, some ms, some mros =>
      let w : World := {
        n := ms.length
        cls := fun i => (ms[i]?.map (·.1)).getD 0
        name := fun i => (ms[i]?.map (·.2.1)).getD 0
        mro := fun c => ((mros.find? (·.1 == c)).map (·.2)).getD [c]
        orig := fun i => (ms[i]?.map (·.2.2)).getD .other }
      let k := kindPass w order
      "ok " ++ String.join ((List.range ms.length).map fun i => showKind (k i))
    | _, _, _ => "bad-op"
  | _ => "bad-op"

end PostProcess
