/-
Model of what `pydoctor.astbuilder.ModuleVistor` documents in ONE namespace (a module body or a class
body) and of what CPython binds there when it executes the same statements (property C03).

* `Ir`      — the mini-Python IR of the statically analysable subset (DESIGN Appendix B, trimmed to
              what C03 needs).  A class body is carried by `Stmt.classDef` but belongs to the class's
              own namespace: neither side looks into it while running the enclosing scope.
* `Builder` — the pydoctor side, a statement-by-statement transcription of
              `visit_ClassDef`, `_handleFunctionDef` (decorator loop → property / classmethod /
              staticmethod / `x.setter` renaming / overload), `_handlePropertyDef`,
              `_handleAssignment → _handleAssignmentInModule/_handleAssignmentInClass →
              _handleModuleVar/_handleClassVar`, `_maybeAttribute`, `_handleOldSchoolMethodDecoration`
              (incl. its `assert`), `_handleConstant/is_constant`, `_storeAttrValue`,
              `_storeCurrentAttr`, `visit_Expr` (attribute docstrings through `builder.currentAttr`),
              `visit_If` (`__name__ == '__main__'`), `NodeVisitor.get_children` (only `.body`),
              `ASTBuilder._push/_pop/addAttribute` (the `currentAttr` discipline),
              `System.addObject` (`parent.contents[name] = obj`: overwrite in place),
              `_infer_attr_annotations` + `astutils.infer_type/_annotation_for_value/_annotation_for_elements`,
              `model.is_exception` + the kind assignment of `defaultPostProcess`,
              `astutils.extract_docstring` (= `inspect.cleandoc`, shared model `Lineno.cleandoc`).
* `PySem`   — CPython's meaning of the same statements: names are bound in order in an insertion-ordered
              dict (rebinding keeps the position), decorators are applied innermost first and build
              `classmethod` / `staticmethod` / `property` objects, `x.setter` returns a new property that
              is bound to the *function's own name*, a bare annotation binds nothing, `else`/`finally`
              bodies run, `if __name__ == '__main__'` does not (the module is imported).

Names are `List Char`.  Executable and total; exceptions are explicit outcomes.
-/
import PdModel.Lineno

namespace Ir

abbrev Name := List Char

/-- the three descriptor classes a decorator can denote -/
inductive Desc | classmethod | staticmethod | property
  deriving DecidableEq, Repr, Inhabited

/-- A decorator: what the expression *denotes* when the module runs, together with its spelling
(`Deco.dotted` is what `astutils.node2dottedname` returns for it). -/
inductive Deco
  | builtin (d : Desc) (qualified : Bool)  -- `@classmethod` / `@builtins.classmethod` (qualified = true)
  | setter (x : Name)                      -- `@x.setter`
  | deleter (x : Name)                     -- `@x.deleter`
  | overload                               -- `@overload` with `from typing import overload`
  | ident (n : Name)                       -- `@n` / `@n(...)`: defined in the package, returns its argument
  | unnamed                                -- an expression that is not a dotted name (`@_decos[0]`), returns its argument
  deriving DecidableEq, Repr, Inhabited

/-- the *value* of a literal (`ast.literal_eval`); scalars carry only their type -/
inductive Lit
  | int | float | complex | str | bytes | bool | none
  | list (xs : List Lit) | tuple (xs : List Lit) | set (xs : List Lit)
  | dict (ks : List Lit) (vs : List Lit)
  | call                                   -- not a literal (`staticmethod(f)`): `literal_eval` raises ValueError
  deriving Repr, Inhabited

/-- a base-class expression: a name the project does not define (`Exception`), or a class of the project -/
inductive Base | ext (n : Name) | user (id : Nat)
  deriving DecidableEq, Repr, Inhabited

inductive BlockKind | ifTaken | try | with | for
  | elseTaken      -- `if <false on import>: body else: tail` / `try: <raises at once> except E: tail`: the `tail` is what runs
  deriving DecidableEq, Repr, Inhabited

inductive Wrap | classmethod | staticmethod
  deriving DecidableEq, Repr, Inhabited

/-- an operand of the test of a guard `if <left> <op> <right>:` -/
inductive Operand
  | dunderName        -- `__name__`
  | mainStr           -- `'__main__'`
  | noneLit           -- `None`
  deriving DecidableEq, Repr, Inhabited

inductive CmpOp | eq | notEq | is | isNot
  deriving DecidableEq, Repr, Inhabited

/-- the test of an `if` that compares two operands once, possibly under `not` -/
structure Guard where
  left : Operand
  op : CmpOp
  right : Operand
  negated : Bool      -- `if not <left> <op> <right>:` (the test is then an `ast.UnaryOp`, not an `ast.Compare`)
  deriving DecidableEq, Repr, Inhabited

/-- the value of the test when the module is imported: `__name__` is the module's name, a string other
than `'__main__'`; equality and identity coincide on the three operands -/
def Guard.onImport (g : Guard) : Bool :=
  let same := g.left = g.right
  let v := match g.op with
    | .eq => same | .is => same
    | .notEq => !same | .isNot => !same
  if g.negated then !v else v

inductive Stmt
  | classDef (name : Name) (bases : List Base) (decos : List Deco) (doc : Option (List Char)) (body : List Stmt)
  | funcDef (name : Name) (async : Bool) (decos : List Deco) (doc : Option (List Char))
  | assign (name : Name) (value : Lit) (ann : Option Name)     -- `name = lit` / `name: ann = lit`
  | annOnly (name : Name) (ann : Name)                         -- `name: ann`
  | attrDoc (text : List Char)                                 -- a string statement
  | block (kind : BlockKind) (body : List Stmt) (tail : List Stmt)
      -- `if True:` / `try:` / `with ctx():` / `for _ in [0]:` with the statements of the `else` (+`finally`) part in `tail`
  | ifMain (body : List Stmt)                                  -- `if __name__ == '__main__':`
  | ifCmp (g : Guard) (body : List Stmt)                       -- `if [not] <operand> <op> <operand>:` (no `else`)
  | oldStyle (name : Name) (w : Wrap)                          -- `name = staticmethod(name)`
  | delName (name : Name)                                      -- `del name`
  | aliasAssign (name : Name) (src : Name)                     -- `name = src` (the value is a plain name bound in this scope)
  | wrapAssign (name : Name) (d : Desc) (src : Name)           -- `name = property(src)` / `staticmethod(src)` / `classmethod(src)`, name ≠ src
  | docAssign (name : Name) (text : List Char)                 -- `name.__doc__ = "text"`
  | other                                                      -- `pass`, an import, a non-string expression
  deriving Repr, Inhabited

/-- bases of the project's classes, by class id (final, i.e. as resolved in post-processing) -/
abbrev ClassEnv := List (Nat × List Base)

def envGet (env : ClassEnv) (i : Nat) : List Base :=
  match env.find? (·.1 == i) with
  | some p => p.2
  | none => []

/-- every external base name reachable from `bases` (fuel bounds the walk; hierarchies are acyclic) -/
def extNames (env : ClassEnv) : Nat → List Base → List Name
  | 0, bases => bases.flatMap fun b => match b with | .ext n => [n] | .user _ => []
  | fuel+1, bases => bases.flatMap fun b =>
      match b with
      | .ext n => [n]
      | .user i => extNames env fuel (envGet env i)

/-- `builtins.ValueError` denotes the builtin `ValueError` (the module does `import builtins`) -/
def stripBuiltins (n : Name) : Name :=
  if "builtins.".toList.isPrefixOf n then n.drop 9 else n

/-- What is compared between the two sides for one bound name. -/
inductive KindClass
  | function | method | classmethod | staticmethod | property | cls | exception | variable | foreign
  deriving DecidableEq, Repr, Inhabited

/-- the scope-level context shared by the two semantics -/
structure Ctx where
  inClass : Bool
  /-- a control-flow block lies somewhere above this namespace's `class` statement (`get_parents`
  in `is_constant` walks up to the module) -/
  scopeInBlock : Bool
  env : ClassEnv
  /-- `model._STD_LIB_EXCEPTIONS` (pydoctor side) -/
  pdExc : List Name
  /-- the names `builtins` binds to exception classes (CPython side) -/
  pyExc : List Name
  /-- names for which `Class.find` on the *bases* of the class being built returns something that is
  not an `Attribute` (an inherited method or nested class); empty for a module -/
  inheritedNonAttr : List Name
  deriving Repr

end Ir

/-! # pydoctor side -/
namespace Builder
open Ir

inductive ObjClass | function | attribute | cls
  deriving DecidableEq, Repr, Inhabited

/-- the `DocumentableKind`s this layer can produce -/
inductive Kind
  | cls | exception | classMethod | staticMethod | method | function
  | constant | classVariable | property | variable
  deriving DecidableEq, Repr, Inhabited

/-- an entry of `contents` of the scope being built -/
structure Member where
  name : Name
  cls : ObjClass
  kind : Kind
  doc : Option (List Char) := none        -- `.docstring` (already cleaned)
  isAsync : Bool := false                 -- `Function.is_async`
  ann : Option (List Char) := none        -- `Attribute.annotation`, unparsed
  value : Option Lit := none              -- `Attribute.value`
  overloads : Nat := 0                    -- `len(Function.overloads)`
  hasSig : Bool := false                  -- `Function.signature` is set
  bases : List Base := []                 -- `Class.rawbases` (as resolved)
  deriving Repr, Inhabited

structure State where
  contents : List Member := []            -- `parent.contents`, in dict order
  cur : Option Name := none               -- `builder.currentAttr` (always an entry of `contents`)
  deriving Repr, Inhabited

inductive Outcome
  | ok (s : State)
  | assertionError                        -- the `assert` of `_handleOldSchoolMethodDecoration`
  deriving Repr, Inhabited

def lookup (l : List Member) (n : Name) : Option Member := l.find? (·.name = n)

/-- `dict[key] = obj`: an existing key keeps its position -/
def put (l : List Member) (m : Member) : List Member :=
  if (lookup l m.name).isSome then l.map (fun x => if x.name = m.name then m else x) else l ++ [m]

/-- in-place change of the object stored under `n` -/
def upd (l : List Member) (n : Name) (f : Member → Member) : List Member :=
  l.map (fun x => if x.name = n then f x else x)

/-! ## decorators (`_handleFunctionDef`, the loop over `node.decorator_list`) -/

def sClassmethod : Name := "classmethod".toList
def sStaticmethod : Name := "staticmethod".toList
def sProperty : Name := "property".toList
def sPropertyCap : Name := "Property".toList
def sSetter : Name := "setter".toList
def sDeleter : Name := "deleter".toList
def sBuiltins : Name := "builtins".toList
def sOverload : Name := "overload".toList

def descName : Desc → Name
  | .classmethod => sClassmethod | .staticmethod => sStaticmethod | .property => sProperty

/-- `astutils.node2dottedname(d)` (of `d.func` for a call); `none` → the loop `continue`s -/
def dotted : Deco → Option (List Name)
  | .builtin d false => some [descName d]
  | .builtin d true => some [sBuiltins, descName d]
  | .setter x => some [x, sSetter]
  | .deleter x => some [x, sDeleter]
  | .overload => some [sOverload]
  | .ident n => some [n]
  | .unnamed => none

/-- `parent.expandName('.'.join(deco_name)) in ('typing.overload', 'typing_extensions.overload')`:
in the IR only `Deco.overload` is spelled with a name that the module imports from `typing`. -/
def expandsToOverload : Deco → Bool
  | .overload => true
  | _ => false

/-- `str.endswith` -/
def endsWith (s suffix : Name) : Bool := suffix.isSuffixOf s

def joinDot : List Name → Name
  | [] => []
  | [a] => a
  | a :: rest => a ++ '.' :: joinDot rest

structure Flags where
  isProperty : Bool := false
  isClassmethod : Bool := false
  isStaticmethod : Bool := false
  isOverload : Bool := false
  funcName : Name
  deriving Repr, DecidableEq

/-- one turn of `for d in node.decorator_list:` -/
def decoStep (inClass : Bool) (fl : Flags) (d : Deco) : Flags :=
  match dotted d with
  | none => fl                                                     -- `if deco_name is None: continue`
  | some dn =>
    let last := dn.getLast?.getD []
    let fl :=
      if inClass then
        if endsWith last sProperty || endsWith last sPropertyCap then { fl with isProperty := true }
        else if dn = [sClassmethod] || dn = [sBuiltins, sClassmethod] then { fl with isClassmethod := true }   -- since 68b2b27
        else if dn = [sStaticmethod] || dn = [sBuiltins, sStaticmethod] then { fl with isStaticmethod := true }
        else if dn.length ≥ 2 ∧ (last = sSetter ∨ last = sDeleter) then
          { fl with funcName := joinDot (dn.drop (dn.length - 2)) }  -- `'.'.join(deco_name[-2:])`
        else fl
      else fl
    if expandsToOverload d then { fl with isOverload := true } else fl

def decoFlags (inClass : Bool) (name : Name) (decos : List Deco) : Flags :=
  decos.foldl (decoStep inClass) { funcName := name }

/-! ## `inspect.cleandoc` through `Documentable.setDocstring` -/

def cleandoc (raw : List Char) : List Char := Lineno.cleandoc raw

/-! ## `str.isupper()` on ASCII names (assumption: generated names are ASCII identifiers) -/

def isUpperName (n : Name) : Bool :=
  n.any (fun c => c.isUpper || c.isLower) && n.all (fun c => !c.isLower)

/-! ## assignments -/

/-- `_handleConstant` + `is_constant` (no `typing.Final` in the subset) -/
def handleConstant (m : Member) (hasValue inBlock : Bool) (defaultKind : Kind) : Member :=
  let overridden := m.value.isSome && hasValue           -- `is_attribute_overridden`
  if !overridden && hasValue && !inBlock && isUpperName m.name then { m with kind := .constant }
  else if m.kind = .constant then { m with kind := defaultKind }
  else m

/-- the common tail of `_handleModuleVar` / `_handleClassVar` on the attribute object `obj` -/
def storeVar (m : Member) (ann : Option Name) (value : Option Lit) (inBlock : Bool) (defaultKind : Kind) : Member :=
  let m := match ann with | some a => { m with ann := some a } | none => m     -- `_setAttributeAnnotation`
  let m := handleConstant m value.isSome inBlock defaultKind
  match value with | some v => { m with value := some v } | none => m          -- `_storeAttrValue`

/-- `_handleAssignmentInModule` for a target whose value is not a dotted name (no alias): `_handleModuleVar` -/
def handleModuleVar (s : State) (n : Name) (ann : Option Name) (value : Option Lit) (inBlock : Bool) : State :=
  match lookup s.contents n with
  | none =>
    let obj : Member := { name := n, cls := .attribute, kind := .variable }   -- `addAttribute(kind=VARIABLE)`
    { contents := put s.contents (storeVar obj ann value inBlock .variable), cur := some n }
  | some obj =>
    if obj.cls ≠ .attribute then s                                          -- `if not isinstance(obj, Attribute): return`
    else { contents := upd s.contents n (fun o => storeVar o ann value inBlock .variable), cur := some n }

/-- a class as `Class.find` sees it: its `contents` as (name, the object is an `Attribute`) -/
abbrev ClassContents := List (Name × Bool)

/-- `Class.find(name)`: `for base in self.mro(): obj = base.contents.get(name); if obj is not None: return obj`;
`chain` is `self.mro()` (while the AST is being visited: `list(self.allbases(include_self=True))`) -/
def findIn : List ClassContents → Name → Option Bool
  | [], _ => none
  | cc :: rest, n =>
    match cc.find? (·.1 = n) with
    | some p => some p.2
    | none => findIn rest n

/-- `_maybeAttribute(cls, name)`: `obj is None or isinstance(obj, Attribute)` -/
def maybeAttributeIn (chain : List ClassContents) (n : Name) : Bool :=
  match findIn chain n with
  | none => true
  | some isAttr => isAttr

/-- the names for which `find`, restricted to the bases, answers with something that is not an `Attribute`
(what `Ctx.inheritedNonAttr` stands for) -/
def inheritedNonAttrOf (bases : List ClassContents) : List Name :=
  (bases.flatMap fun cc => cc.map (·.1)).filter fun n => findIn bases n == some false

def ownContents (s : State) : ClassContents := s.contents.map fun m => (m.name, decide (m.cls = .attribute))

/-- `_maybeAttribute(cls, name)`: `cls.find(name)` is `None` or an `Attribute` (own contents first, then bases) -/
def maybeAttribute (c : Ctx) (s : State) (n : Name) : Bool :=
  match lookup s.contents n with
  | some obj => obj.cls = .attribute
  | none => !c.inheritedNonAttr.contains n

/-- `expr is not None and _isLiteral(expr)`: `ast.literal_eval(expr)` succeeds (`Lit.call` stands for an
expression on which it raises) -/
def isLiteralValue : Option Lit → Bool
  | some .call => false
  | some _ => true
  | none => false

/-- `_handleAssignmentInClass` for a non-alias value: `_handleClassVar` -/
def handleClassVar (c : Ctx) (s : State) (n : Name) (ann : Option Name) (value : Option Lit) (inBlock : Bool) : State :=
  -- `if not _maybeAttribute(cls, name) and not (name not in cls.contents and expr is not None and _isLiteral(expr)): return`
  -- (since 91105ce a literal is documented even when it shadows an inherited method or class)
  if !maybeAttribute c s n && !((lookup s.contents n).isNone && isLiteralValue value) then s else
  match lookup s.contents n with
  | none =>
    let obj : Member := { name := n, cls := .attribute, kind := .classVariable } -- `addAttribute(kind=None)`; `if obj.kind is None:`
    { contents := put s.contents (storeVar obj ann value inBlock .classVariable), cur := some n }
  | some _ =>
    { contents := upd s.contents n (fun o => storeVar o ann value inBlock .classVariable), cur := some n }

def handleVar (c : Ctx) (s : State) (n : Name) (ann : Option Name) (value : Option Lit) (inBlock : Bool) : State :=
  if c.inClass then handleClassVar c s n ann value inBlock else handleModuleVar s n ann value inBlock

/-- `name = staticmethod(name)`: `_handleOldSchoolMethodDecoration` in a class, then the ordinary
assignment path when it returns False; in a module only the ordinary path. -/
def handleOldStyle (c : Ctx) (s : State) (n : Name) (w : Wrap) (inBlock : Bool) : Outcome :=
  if c.inClass then
    match lookup s.contents n with
    | some obj =>
      if obj.cls = .function then
        -- `assert target_obj.kind in (METHOD, STATIC_METHOD, CLASS_METHOD)` (since 04d150a: the function might have been
        -- decorated or wrapped already, the last wrapper decides)
        if !(obj.kind = .method || obj.kind = .staticMethod || obj.kind = .classMethod) then .assertionError
        else .ok { s with contents := upd s.contents n (fun o =>
          { o with kind := match w with | .staticmethod => .staticMethod | .classmethod => .classMethod }) }
      else .ok (handleClassVar c s n none (some .call) inBlock)
    | none => .ok (handleClassVar c s n none (some .call) inBlock)
  else .ok (handleModuleVar s n none (some .call) inBlock)

/-- `name.__doc__ = "text"` at module or class level: `_handleDocstringUpdate`.  The target is looked up by
name (`node2fullname` + `objForFullName`; generated names resolve in the scope itself or not at all); since 6e624d0
the string is cleaned like a docstring literal (`obj.docstring = inspect.cleandoc(docstring)`). -/
def handleDocAssign (s : State) (n : Name) (text : List Char) : State :=
  match lookup s.contents n with
  | some _ => { s with contents := upd s.contents n (fun o => { o with doc := some (cleandoc text) }) }
  | none => s            -- "Unable to figure out target for __doc__ assignment": a warning, nothing else

/-! ## definitions -/

/-- `_handleFunctionDef` -/
def handleFunctionDef (c : Ctx) (s : State) (n : Name) (async : Bool) (decos : List Deco)
    (doc : Option (List Char)) : State :=
  let fl := decoFlags c.inClass n decos
  if fl.isProperty then
    -- `_handlePropertyDef`: `addAttribute(name=node.name, kind=PROPERTY)`, then `self.builder.currentAttr = None`
    -- (since fcaa577; `addAttribute` had left it on the property) and `raise SkipNode` (no `_pop`)
    let attr : Member := { name := n, cls := .attribute, kind := .property, doc := doc.map cleandoc }
    { contents := put s.contents attr, cur := none }
  else
    let existing := lookup s.contents fl.funcName
    let reuse := match existing with
      | some e => e.cls = .function && e.overloads > 0
      | none => false
    let skip := match existing with
      | some e => reuse && e.hasSig && fl.isOverload     -- "overload appeared after primary function": SkipNode
      | none => false
    if skip then s else
    let func : Member := match existing with
      | some e => if reuse then e else
          { name := fl.funcName, cls := .function, kind := if c.inClass then .method else .function }
      | none => { name := fl.funcName, cls := .function, kind := if c.inClass then .method else .function }
    let func := { func with isAsync := async }
    let func := match doc with
      | some d => if fl.isOverload then func else { func with doc := some (cleandoc d) }
      | none => func
    let func :=
      if fl.isStaticmethod then (if fl.isClassmethod then func else { func with kind := .staticMethod })
      else if fl.isClassmethod then { func with kind := .classMethod }
      else func
    let func := if fl.isOverload then { func with overloads := func.overloads + 1 } else { func with hasSig := true }
    let contents := put s.contents func
    -- an existing function is re-entered with `builder.push`, which (unlike `_push`) leaves `currentAttr`
    -- alone: the docstring statement of the body then reaches `visit_Expr` with the attribute still current
    let contents := match reuse, doc, s.cur with
      | true, some d, some a => upd contents a (fun o => { o with doc := some (cleandoc d) })
      | _, _, _ => contents
    { contents := contents, cur := none }                     -- `_pop`: `currentAttr = None`

/-- `visit_ClassDef` … `depart_ClassDef` as seen from the enclosing scope -/
def handleClassDef (s : State) (n : Name) (bases : List Base) (doc : Option (List Char)) : State :=
  { contents := put s.contents { name := n, cls := .cls, kind := .cls, doc := doc.map cleandoc, bases := bases },
    cur := none }

/-- `visit_Expr` on a string statement -/
def handleAttrDoc (s : State) (text : List Char) : State :=
  match s.cur with
  | some n => { contents := upd s.contents n (fun o => { o with doc := some (cleandoc text) }), cur := none }
  | none => s

/-- `visit_If`: `isinstance(node.test, ast.Compare) and astutils.is__name__equals__main__(node.test)` —
left is the name `__name__`, one operator which is `==`, one comparator which is the string `'__main__'` -/
def isNameEqualsMain (g : Guard) : Bool :=
  !g.negated && g.left == .dunderName && g.op == .eq && g.right == .mainStr

mutual
/-- one statement of the body being walked; `inBlock` = a control-flow block lies between the
statement and the scope (`is_constant`'s `get_parents` test) -/
def execStmt (c : Ctx) (inBlock : Bool) (s : State) : Stmt → Outcome
  | .classDef n bases _ doc _ => .ok (handleClassDef s n bases doc)
  | .funcDef n async decos doc => .ok (handleFunctionDef c s n async decos doc)
  | .assign n v ann => .ok (handleVar c s n ann (some v) inBlock)
  | .annOnly n ann => .ok (handleVar c s n (some ann) none inBlock)
  | .attrDoc t => .ok (handleAttrDoc s t)
  | .block k body tail =>
    -- `get_children`: `.body`, and (since 99a6d9c) the clauses that run whenever the body completes: `orelse` and
    -- `finalbody` of a `try`, `orelse` of a loop; the `else` branch of an `if` and the handlers stay ignored
    match k with
    | .try | .for =>
      match execList c true s body with
      | .ok s' => execList c true s' tail
      | .assertionError => .assertionError
    | _ => execList c true s body
  | .ifMain _ => .ok s                                    -- `visit_If`: SkipNode
  | .ifCmp g body => if isNameEqualsMain g then .ok s else execList c true s body
  | .oldStyle n w => handleOldStyle c s n w inBlock
  | .delName _ => .ok s                                   -- there is no `visit_Delete`: the object stays documented
  | .aliasAssign n _ =>
    -- `_handleAliasing`: `if target in ctx.contents: return False` (then the ordinary variable path with a non-literal
    -- value); otherwise the alias is recorded in `_localNameToFullName_map` and NOTHING is documented
    if (lookup s.contents n).isSome then .ok (handleVar c s n none (some .call) inBlock) else .ok s
  | .wrapAssign n _ _ =>
    -- `_handleOldSchoolMethodDecoration` needs target == argument, a `property(...)` call is not looked at: an ordinary
    -- variable whose value is a call
    .ok (handleVar c s n none (some .call) inBlock)
  | .docAssign n t => .ok (handleDocAssign s n t)
  | .other => .ok s
def execList (c : Ctx) (inBlock : Bool) (s : State) : List Stmt → Outcome
  | [] => .ok s
  | st :: rest =>
    match execStmt c inBlock s st with
    | .ok s' => execList c inBlock s' rest
    | .assertionError => .assertionError
end

/-! ## `astutils.infer_type` on the evaluated literal -/

/-- the annotation `_annotation_for_value` builds (`ast.Name`, or `ast.Subscript` of a name) -/
inductive Ann
  | name (n : String)
  | sub (n : String) (args : List String)     -- `n[args…]`; a tuple gets the extra argument `...`
  deriving DecidableEq, Repr

def Ann.head : Ann → String
  | .name n => n | .sub n _ => n

def Ann.render : Ann → String
  | .name n => n
  | .sub n args => n ++ "[" ++ ", ".intercalate args ++ "]"

/-- `names.add(ann.id)` into a Python `set`: membership only -/
def addName (names : List String) (n : String) : List String := if names.contains n then names else names ++ [n]

mutual
/-- `_annotation_for_value`; `none` = returns `None` -/
def annForValue : Lit → Option Ann
  | .none => none
  | .int => some (.name "int") | .float => some (.name "float") | .complex => some (.name "complex")
  | .str => some (.name "str") | .bytes => some (.name "bytes") | .bool => some (.name "bool")
  | .call => none     -- never reached: `literal_eval` raised (see `inferType`)
  | .list xs => some (match annForElems [] xs with | some e => .sub "list" [e] | none => .name "list")
  | .set xs => some (match annForElems [] xs with | some e => .sub "set" [e] | none => .name "set")
  | .tuple xs => some (match annForElems [] xs with | some e => .sub "tuple" [e, "..."] | none => .name "tuple")
  | .dict ks vs =>
    some (match annForElems [] ks, annForElems [] vs with
      | _, none => .name "dict"                 -- `if ann_value is None: ann_elem = None`
      | some k, some v => .sub "dict" [k, v]
      | none, some _ => .name "dict")
/-- `_annotation_for_elements`: the loop with the set `names` as accumulator -/
def annForElems (names : List String) : List Lit → Option String
  | [] => match names with | [n] => some n | _ => none      -- `if len(names) == 1`
  | x :: rest =>
    match annForValue x with
    | some (.name n) => annForElems (addName names n) rest
    | _ => none                                              -- "Nested sequences are too complex."
end

/-- `infer_type(expr)` on an expression whose `literal_eval` is the value `v` -/
def inferType : Lit → Option Ann
  | .call => none           -- `except (ValueError, TypeError): return None`
  | v => annForValue v

/-- `_infer_attr_annotations(scope)` for one attribute -/
def inferAnn (m : Member) : Member :=
  if m.cls = .attribute && m.ann.isNone then
    match m.value with
    | some v => { m with ann := (inferType v).map (fun a => a.render.toList) }
    | none => m
  else m

/-! ## post-processing: `is_exception` -/

/-- `is_exception`: a name of `cls.mro(True, False)` is in `_STD_LIB_EXCEPTIONS`.  The linearisation
holds every reachable base exactly once (C05), so membership is reachability. -/
def isException (c : Ctx) (bases : List Base) : Bool :=
  -- `if base.startswith('builtins.'): base = base[len('builtins.'):]` (since 78b09d3), then `base in _STD_LIB_EXCEPTIONS`
  (extNames c.env (c.env.length + 1) bases).any (fun n => c.pdExc.contains (stripBuiltins n))

def postProcess (c : Ctx) (m : Member) : Member :=
  if m.cls = .cls && isException c m.bases then { m with kind := .exception } else m

/-- the scope after `depart_Module`/`depart_ClassDef` and `defaultPostProcess` -/
def finish (c : Ctx) (s : State) : List Member := (s.contents.map inferAnn).map (postProcess c)

inductive Result
  | ok (members : List Member)
  | assertionError
  deriving Repr

def scope (c : Ctx) (stmts : List Stmt) : Result :=
  match execList c c.scopeInBlock {} stmts with
  | .ok s => .ok (finish c s)
  | .assertionError => .assertionError

/-- what the property compares -/
def kindClass (m : Member) : KindClass :=
  match m.cls, m.kind with
  | .function, .function => .function
  | .function, .method => .method
  | .function, .classMethod => .classmethod
  | .function, .staticMethod => .staticmethod
  | .function, _ => .function
  | .attribute, .property => .property
  | .attribute, _ => .variable
  | .cls, .exception => .exception
  | .cls, _ => .cls

/-- the decision kernel of `_handleFunctionDef` in isolation: the kind class of the object a `def` with
these decorators is documented as -/
def funcKind (inClass : Bool) (n : Name) (decos : List Deco) : KindClass :=
  let fl := decoFlags inClass n decos
  if fl.isProperty then .property
  else if fl.isStaticmethod then (if fl.isClassmethod then (if inClass then .method else .function) else .staticmethod)
  else if fl.isClassmethod then .classmethod
  else if inClass then .method else .function

end Builder

/-! # CPython side -/
namespace PySem
open Ir

inductive PyObj
  | func (async : Bool) (doc : Option (List Char))     -- a function object created by a `def` of this scope
  | cm (f : PyObj)                                      -- `classmethod(f)`
  | sm (f : PyObj)                                      -- `staticmethod(f)`
  | prop (fget : PyObj)                                 -- `property(fget[, fset[, fdel]])`
  | cls (exc : Bool) (doc : Option (List Char))         -- a class created by a `class` statement of this scope
  | value (l : Lit)
  | foreign                                             -- an object not defined here (`typing._overload_dummy`)
  deriving Repr, Inhabited

abbrev Ns := List (Name × PyObj)

inductive Outcome
  | ok (ns : Ns)
  | raises                                              -- NameError / AttributeError while executing the body
  deriving Repr, Inhabited

def lookup (ns : Ns) (n : Name) : Option PyObj := (ns.find? (·.1 = n)).map (·.2)

/-- `ns[n] = o` -/
def bind (ns : Ns) (n : Name) (o : PyObj) : Ns :=
  if (lookup ns n).isSome then ns.map (fun p => if p.1 = n then (n, o) else p) else ns ++ [(n, o)]

/-- calling the decorator on `o`; `none` = the decorator expression cannot be evaluated/applied -/
def applyDeco (ns : Ns) (d : Deco) (o : PyObj) : Option PyObj :=
  match d with
  | .builtin .classmethod _ => some (.cm o)
  | .builtin .staticmethod _ => some (.sm o)
  | .builtin .property _ => some (.prop o)
  | .setter x | .deleter x =>
    match lookup ns x with
    | some (.prop g) => some (.prop g)      -- `type(self)(self.fget, fset, self.fdel, self.__doc__)`: a NEW property, same getter
    | _ => none
  | .overload => some .foreign
  | .ident _ => some o
  | .unnamed => some o

/-- decorators are applied from the innermost (last written) outwards -/
def applyDecos (ns : Ns) : List Deco → PyObj → Option PyObj
  | [], o => some o
  | d :: rest, o =>
    match applyDecos ns rest o with
    | some o' => applyDeco ns d o'
    | none => none

/-- `issubclass(cls, BaseException)` for a class whose external bases are builtins -/
def isException (c : Ctx) (bases : List Base) : Bool :=
  (extNames c.env (c.env.length + 1) bases).any (fun n => c.pyExc.contains (stripBuiltins n))

mutual
def execStmt (c : Ctx) (ns : Ns) : Stmt → Outcome
  | .classDef n bases _ doc _ => .ok (bind ns n (.cls (isException c bases) doc))   -- class decorators of the subset return the class
  | .funcDef n async decos doc =>
    match applyDecos ns decos (.func async doc) with
    | some o => .ok (bind ns n o)
    | none => .raises
  | .assign n v _ => .ok (bind ns n (.value v))
  | .annOnly _ _ => .ok ns                                 -- only `__annotations__` changes
  | .attrDoc _ => .ok ns
  | .block .elseTaken _ tail => execList c ns tail        -- the body does not run (false test / exception at once), the other part does
  | .block k body tail =>
    match execList c ns body with
    | .ok ns' =>
      match k with
      | .ifTaken => .ok ns'                                -- the `else` branch of a taken `if` does not run
      | .with => .ok ns'
      | .try => execList c ns' tail                        -- `else:` and `finally:` run (the body does not raise)
      | .for => execList c ns' tail                        -- `else:` runs (the body does not `break`)
      | .elseTaken => .ok ns'                              -- unreachable: handled below
    | .raises => .raises
  | .ifMain _ => .ok ns                                    -- `__name__` is the module's name
  | .ifCmp g body => if g.onImport then execList c ns body else .ok ns
  | .oldStyle n w =>
    match lookup ns n with
    | some o => .ok (bind ns n (match w with | .staticmethod => .sm o | .classmethod => .cm o))
    | none => .raises                                      -- NameError
  | .aliasAssign n src =>
    match lookup ns src with
    | some (.func _ _) => .ok (bind ns n .foreign)          -- a function or class defined under another name (its
    | some (.cls _ _) => .ok (bind ns n .foreign)           -- `__qualname__` says so): reported as an alias, like an import
    | some .foreign => .ok (bind ns n .foreign)
    | some o => .ok (bind ns n o)                           -- a value or a descriptor object: the same object under a second name
    | none => .raises                                      -- NameError
  | .wrapAssign n d src =>
    match lookup ns src with
    | some o => .ok (bind ns n (match d with | .classmethod => .cm o | .staticmethod => .sm o | .property => .prop o))
    | none => .raises
  | .delName n =>
    match lookup ns n with
    | some _ => .ok (ns.filter (fun p => p.1 != n))        -- the name is unbound again
    | none => .raises                                      -- NameError
  | .docAssign n t =>
    match lookup ns n with
    | some (.func a _) => .ok (bind ns n (.func a (some t)))       -- `__doc__` of a function object is writable
    | some (.cls e _) => .ok (bind ns n (.cls e (some t)))         -- and of a class
    | some .foreign => .ok ns                                       -- a function defined elsewhere: its `__doc__`, not this namespace
    | _ => .raises                                                -- unbound name / an object without writable `__doc__`
  | .other => .ok ns
def execList (c : Ctx) (ns : Ns) : List Stmt → Outcome
  | [] => .ok ns
  | st :: rest =>
    match execStmt c ns st with
    | .ok ns' => execList c ns' rest
    | .raises => .raises
end

def scope (c : Ctx) (stmts : List Stmt) : Outcome := execList c [] stmts

/-- the class of the raw `__dict__` entry -/
def kindClass (inClass : Bool) : PyObj → KindClass
  | .func _ _ => if inClass then .method else .function
  | .cm _ => .classmethod
  | .sm _ => .staticmethod
  | .prop _ => .property
  | .cls exc _ => if exc then .exception else .cls
  | .value _ => .variable
  | .foreign => .foreign

/-- `__func__` / `fget` chain down to the function -/
def underlying : PyObj → PyObj
  | .cm f => underlying f
  | .sm f => underlying f
  | .prop g => underlying g
  | o => o

/-- `inspect.iscoroutinefunction(raw.__func__ or raw)` (not asked of properties) -/
def coroutine : PyObj → Bool
  | .prop _ => false
  | o => match underlying o with | .func a _ => a | _ => false

/-- the raw `__doc__` the interpreter reports (`fget.__doc__` for a property) -/
def rawDoc (o : PyObj) : Option (List Char) :=
  match underlying o with
  | .func _ d => d
  | .cls _ d => d
  | _ => none

/-- `type(value).__name__` -/
def typeName : Lit → String
  | .int => "int" | .float => "float" | .complex => "complex" | .str => "str" | .bytes => "bytes"
  | .bool => "bool" | .none => "NoneType" | .list _ => "list" | .tuple _ => "tuple" | .set _ => "set"
  | .dict _ _ => "dict" | .call => "?"

/-- the kind class of the object a `def` with these decorators binds (decorators that evaluate) -/
def funcKind (inClass : Bool) (ns : Ns) (decos : List Deco) : Option KindClass :=
  (applyDecos ns decos (.func false none)).map (kindClass inClass)

end PySem

/-! # The agreed subset, as a decidable predicate on one scope's statements

`Subset.inSubset c stmts`: a name may be bound again by a `def` or a `class` (whatever it was bound to) and a
variable may be assigned again — the last binding wins on both sides; an assignment to a name that is bound to a
function, class or property is excluded (pydoctor keeps the definition); `name = staticmethod(name)` right in the class
that defined `name` as a method (decorated, wrapped already, or not) is allowed, decorators of a `def` are
`classmethod` / `staticmethod` / `property`, bare or `builtins.`-qualified (in a class only, at most one of them per `def`), identity
decorators defined in the package whose name does not end in `property`/`Property`, or non-name
expressions; no `@x.setter` / `@x.deleter` / `@overload`; no bare annotation; the `else` branch of an `if` that is not taken on import and `except` handlers that run are excluded (`elseTaken`); an
`if` guarded by a comparison of `__name__`/`'__main__'`/`None` is skipped by pydoctor exactly when it is not taken on import; a class attribute assigned a NON-literal does not
shadow an inherited method or nested class (a literal may, since 91105ce); the external base names reachable from a class are classified
alike by `_STD_LIB_EXCEPTIONS` and by `builtins` (both after removing a `builtins.` prefix). -/
namespace Subset
open Ir

/-- the descriptor class a decorator builds, if any -/
def descOf : Deco → Option Desc
  | .builtin d _ => some d
  | _ => none

/-- the descriptor decorators of a list, outermost first -/
def descs (ds : List Deco) : List Desc := ds.filterMap descOf

def isDesc (d : Deco) : Bool := (descOf d).isSome

def decoOk (inClass : Bool) : Deco → Bool
  | .builtin _ _ => inClass                     -- bare or `builtins.`-qualified (recognised since 68b2b27)
  | .ident n => !Builder.endsWith n Builder.sProperty && !Builder.endsWith n Builder.sPropertyCap
      && n != Builder.sClassmethod && n != Builder.sStaticmethod
  | .unnamed => true
  | .setter _ => false
  | .deleter _ => false
  | .overload => false

def decosOk (inClass : Bool) (ds : List Deco) : Bool :=
  ds.all (decoOk inClass) && (descs ds).length ≤ 1

/-- decorators that hand back their argument (class decorators of the subset) -/
def transparent : Deco → Bool
  | .ident _ => true
  | .unnamed => true
  | _ => false

/-- a statement that binds nothing on either side -/
def inert : Stmt → Bool
  | .other => true
  | .attrDoc _ => true
  | _ => false

def basesOk (c : Ctx) (bases : List Base) : Bool :=
  (extNames c.env (c.env.length + 1) bases).all (fun n => c.pdExc.contains (stripBuiltins n) == c.pyExc.contains (stripBuiltins n))

structure Seen where
  names : List Name := []       -- names bound so far, in order of first binding
  plain : List Name := []       -- now bound by a `def` of a class that is not a property (decorated or wrapped or not)
  docable : List Name := []     -- now bound by a `def` without descriptor decorator or by a `class`, not wrapped
  vars : List Name := []        -- now bound to a variable (an assignment)
  deriving Repr

/-- `names` with `n` recorded (a re-bound name keeps its place, as in a dict) -/
def addName (names : List Name) (n : Name) : List Name := if names.contains n then names else names ++ [n]

/-- forget what was known about `n`: it is being re-bound -/
def dropName (n : Name) (l : List Name) : List Name := l.filter (· != n)

mutual
def checkStmt (c : Ctx) (sn : Seen) : Stmt → Option Seen
  | .classDef n bases decos _ _ =>
    -- a `class` may re-bind any name: the last definition wins on both sides
    if !decos.all transparent || !basesOk c bases then none
    else some { names := addName sn.names n, plain := dropName n sn.plain, docable := dropName n sn.docable ++ [n],
                vars := dropName n sn.vars }
  | .funcDef n _ decos _ =>
    -- and so may a `def`
    if !decosOk c.inClass decos then none
    else some { names := addName sn.names n,
                plain := if c.inClass && !(descs decos).contains .property then dropName n sn.plain ++ [n] else dropName n sn.plain,
                docable := if (descs decos).isEmpty then dropName n sn.docable ++ [n] else dropName n sn.docable,
                vars := dropName n sn.vars }
  | .assign n v _ =>
    -- an assignment may re-bind a VARIABLE; after a `def`/`class`/property of that name pydoctor keeps the definition
    if (sn.names.contains n && !sn.vars.contains n) ||
        (!sn.names.contains n && c.inClass && c.inheritedNonAttr.contains n && !Builder.isLiteralValue (some v)) then none
    else some { names := addName sn.names n, plain := dropName n sn.plain, docable := dropName n sn.docable,
                vars := dropName n sn.vars ++ [n] }
  | .annOnly _ _ => none
  | .attrDoc _ => some sn
  | .block .elseTaken _ _ => none                         -- pydoctor walks the part that does not run and not the one that does
  | .block .try body tail =>                              -- body, then `else:`/`finally:` — walked and executed in that order
    match checkList c sn body with
    | some sn' => checkList c sn' tail
    | none => none
  | .block .for body tail =>                              -- body, then the loop's `else:`
    match checkList c sn body with
    | some sn' => checkList c sn' tail
    | none => none
  | .block _ body _ => checkList c sn body                -- taken `if` (its `else` runs on neither side), `with`
  | .ifMain _ => some sn
  | .ifCmp g body =>
    -- pydoctor skips the body exactly when the recogniser fires; CPython exactly when the test is false on import
    if Builder.isNameEqualsMain g == g.onImport then none
    else if Builder.isNameEqualsMain g then some sn else checkList c sn body
  | .oldStyle n _ =>
    -- a method of this class, whatever its decorator, may be wrapped (again): the last wrapper decides on both sides
    if c.inClass && sn.plain.contains n then some { sn with docable := sn.docable.filter (· != n) } else none
  | .delName _ => none
  | .aliasAssign _ _ => none
  | .wrapAssign _ _ _ => none
  | .docAssign n _ =>
    -- the target must be a plain function or a class of this namespace (an object whose `__doc__` CPython lets one assign)
    if sn.docable.contains n then some sn else none
  | .other => some sn
def checkList (c : Ctx) (sn : Seen) : List Stmt → Option Seen
  | [] => some sn
  | st :: rest =>
    match checkStmt c sn st with
    | some sn' => checkList c sn' rest
    | none => none
end

def inSubset (c : Ctx) (stmts : List Stmt) : Bool := (checkList c {} stmts).isSome

end Subset
