import PdModel.Signature
import PdModel.Proto
/-! Line protocol for the Signature model.

`signature sig  <posonly> <args> <vararg> <kwonly> <kwdefaults> <kwarg> <defaults> <returns>`
   → `ok <params> | <tokens> | <clean|ValueError>`   (or `AssertionError` / `IndexError`)
`signature read <token>*`            → `ok <8 fields>` or `SyntaxError` (CPython's reading, `parseSig`)
`signature back <8 fields>`          → `parseSig (render (signatureOf a))` in the `read` format
`signature defs <n> (<name> <o|d> <8 fields>)*`
   → `ok f<name> S <tokens|None> O <tokens> ; … D <tokens> ; … || …`

fields: arg lists are `-` or comma separated `n<id>[:<ann>]`; optional args `-` or one arg;
kwdefaults `-` or comma separated `_`/`<nat>`; defaults `-` or comma separated nats; returns `-` or `<ann>`.
ann: any number of `s` (one string-quoting level each) followed by `a<k>` (atom), `b<k>` (string that
is not an expression) or `N` (the constant None).
tokens: `( ) , / * ** : = -> ... n<id> d<k> @<ann>`. -/
namespace Signature

/-- leading decimal digits -/
def takeNat (cs : List Char) : Option (Nat × List Char) :=
  let ds := cs.takeWhile Char.isDigit
  if ds.isEmpty then none else (String.ofList ds).toNat?.map fun n => (n, cs.drop ds.length)

/-- prefix code: `a<k>` atom, `L` the name Literal, `N` None, `s<ann>` string, `b<k>` string that is not an
expression, `M` the name Annotated, `l<k>` / `m<k>` a name that resolves to typing.Literal / typing.Annotated,
`A<n><ann>` attribute `<ann>.<name n>` (0 = Literal, 2 = Annotated), `S<v><slice>`, `T<a><b>`, `O<a><b>`. -/
def parseAnnChars : Nat → List Char → Option (AnnE × List Char)
  | 0, _ => none
  | fuel+1, cs =>
    match cs with
    | 'a' :: r => (takeNat r).map fun (n, r') => (.atom n, r')
    | 'b' :: r => (takeNat r).map fun (n, r') => (.badStr n, r')
    | 'L' :: r => some (.literalName, r)
    | 'M' :: r => some (.annotatedName, r)
    | 'l' :: r => (takeNat r).map fun (n, r') => (.aliasRef n .literal, r')
    | 'm' :: r => (takeNat r).map fun (n, r') => (.aliasRef n .annotated, r')
    | 'N' :: r => some (.noneLit, r)
    | 's' :: r => (parseAnnChars fuel r).map fun (e, r') => (.str e, r')
    | 'A' :: r => do
      let (n, r1) ← takeNat r
      let (v, r2) ← parseAnnChars fuel r1
      some (.attr v n, r2)
    | 'S' :: r => do
      let (v, r1) ← parseAnnChars fuel r
      let (sl, r2) ← parseAnnChars fuel r1
      some (.sub v sl, r2)
    | 'T' :: r => do
      let (a, r1) ← parseAnnChars fuel r
      let (b, r2) ← parseAnnChars fuel r1
      some (.tup a b, r2)
    | 'O' :: r => do
      let (a, r1) ← parseAnnChars fuel r
      let (b, r2) ← parseAnnChars fuel r1
      some (.bor a b, r2)
    | _ => none

def parseAnn (s : String) : Option AnnE :=
  match parseAnnChars (s.length + 1) s.toList with
  | some (e, []) => some e
  | _ => none

def showAnn : AnnE → String
  | .atom a => "a" ++ toString a
  | .literalName => "L"
  | .annotatedName => "M"
  | .aliasRef a .literal => "l" ++ toString a
  | .aliasRef a .annotated => "m" ++ toString a
  | .noneLit => "N"
  | .str e => "s" ++ showAnn e
  | .badStr a => "b" ++ toString a
  | .attr v n => "A" ++ toString n ++ showAnn v
  | .sub v sl => "S" ++ showAnn v ++ showAnn sl
  | .tup a b => "T" ++ showAnn a ++ showAnn b
  | .bor a b => "O" ++ showAnn a ++ showAnn b

def parseArg (s : String) : Option Arg :=
  match s.splitOn ":" with
  | [n] => if n.startsWith "n" then (n.drop 1).toString.toNat?.map (⟨·, none⟩) else none
  | [n, a] =>
    if n.startsWith "n" then do
      let i ← (n.drop 1).toString.toNat?
      let e ← parseAnn a
      some ⟨i, some e⟩
    else none
  | _ => none

def showArg (x : Arg) : String :=
  "n" ++ toString x.name ++ (match x.ann with | some e => ":" ++ showAnn e | none => "")

def parseArgList (s : String) : Option (List Arg) :=
  if s == "-" then some [] else (s.splitOn ",").mapM parseArg

def parseOptArg (s : String) : Option (Option Arg) :=
  if s == "-" then some none else (parseArg s).map some

def parseKwDefaults (s : String) : Option (List (Option Nat)) :=
  if s == "-" then some [] else
    (s.splitOn ",").mapM fun p => if p == "_" then some none else p.toNat?.map some

def parseReturns (s : String) : Option (Option AnnE) :=
  if s == "-" then some none else (parseAnn s).map some

def parseFields : List String → Option Args
  | [p, a, v, k, kd, w, d, r] => do
    let p ← parseArgList p
    let a ← parseArgList a
    let v ← parseOptArg v
    let k ← parseArgList k
    let kd ← parseKwDefaults kd
    let w ← parseOptArg w
    let d ← Proto.natList d
    let r ← parseReturns r
    some { posonly := p, args := a, vararg := v, kwonly := k, kwDefaults := kd, kwarg := w,
           defaults := d, returns := r }
  | _ => none

def showList (l : List String) : String := if l.isEmpty then "-" else ",".intercalate l

def showFields (a : Args) : String :=
  " ".intercalate [
    showList (a.posonly.map showArg), showList (a.args.map showArg),
    (match a.vararg with | some v => showArg v | none => "-"),
    showList (a.kwonly.map showArg),
    showList (a.kwDefaults.map fun o => match o with | some d => toString d | none => "_"),
    (match a.kwarg with | some v => showArg v | none => "-"),
    Proto.showNatList a.defaults,
    (match a.returns with | some e => showAnn e | none => "-")]

def showKind : Kind → String
  | .posOnly => "PO" | .posOrKw => "PK" | .varPos => "VP" | .kwOnly => "KO" | .varKw => "VK"

def showParam (p : Param) : String :=
  "n" ++ toString p.name ++ "/" ++ showKind p.kind ++ "/" ++
    (match p.default with | some d => "d" ++ toString d | none => "_") ++ "/" ++
    (match p.ann with | some e => showAnn e | none => "_")

def showToken : Token → String
  | .lparen => "(" | .rparen => ")" | .comma => "," | .slash => "/" | .star => "*" | .dstar => "**"
  | .colon => ":" | .eq => "=" | .arrow => "->" | .ellipsis => "..."
  | .name n => "n" ++ toString n | .dflt d => "d" ++ toString d | .ann e => "@" ++ showAnn e

def parseToken (s : String) : Option Token :=
  match s with
  | "(" => some .lparen | ")" => some .rparen | "," => some .comma | "/" => some .slash
  | "*" => some .star | "**" => some .dstar | ":" => some .colon | "=" => some .eq
  | "->" => some .arrow | "..." => some .ellipsis
  | _ =>
    if s.startsWith "n" then (s.drop 1).toString.toNat?.map .name
    else if s.startsWith "d" then (s.drop 1).toString.toNat?.map .dflt
    else if s.startsWith "@" then (parseAnn (s.drop 1).toString).map .ann
    else none

def showTokens (l : List Token) : String := " ".intercalate (l.map showToken)

def showErr : Err → String
  | .assertionError => "AssertionError" | .indexError => "IndexError"

def showSigOpt : Option Sig → String
  | some s => showTokens (render s)
  | none => "None"

def showFunc (kf : Key × Func) : String :=
  (match kf.1 with | .name n => "f" ++ toString n | .ret => "return") ++
    " S " ++ showSigOpt kf.2.signature ++
    " O " ++ " ; ".intercalate (kf.2.overloads.map fun s => showTokens (render s)) ++
    " D " ++ " ; ".intercalate ((displayed kf.2).map showTokens)

/-- split `n` defs of 10 tokens each -/
def parseDefs : Nat → List String → Option (List Def)
  | 0, [] => some []
  | 0, _ => none
  | n+1, name :: flag :: rest =>
    if rest.length < 8 then none else do
      let i ← name.toNat?
      let o ← (match flag with | "o" => some true | "d" => some false | _ => none)
      let a ← parseFields (rest.take 8)
      let ds ← parseDefs n (rest.drop 8)
      some ({ name := i, isOverload := o, args := a } :: ds)
  | _, _ => none

def parseParent : String → Option ParentKind
  | "m" => some .module | "c" => some .cls | "f" => some .func | _ => none

/-- `-` (not a dotted name) or `<o|x>:<comp>/<comp>/…` with every component `u:`-encoded -/
def parseDeco (s : String) : Option Deco :=
  if s == "-" then some { dotted := none, resolvesToOverload := false }
  else
    match s.splitOn ":" with
    | flag :: rest =>
      let body := ":".intercalate rest
      match (body.splitOn "/").mapM Proto.decodeStr with
      | some (first :: more) =>
        match flag with
        | "o" => some { dotted := some (first, more), resolvesToOverload := true }
        | "x" => some { dotted := some (first, more), resolvesToOverload := false }
        | _ => none
      | _ => none
    | _ => none

def showOutcome : DefOutcome → String
  | .skippedInner => "inner"
  | .property n => "property " ++ Proto.encodeStr n
  | .function n k o =>
    "function " ++ Proto.encodeStr n ++ " " ++
      (match k with | .plain => "plain" | .staticMethod => "static" | .classMethod => "class") ++ " " ++
      (if o then "o" else "d") ++ " shown=" ++
      (match shownName n with | some sn => Proto.encodeStr sn | none => "ValueError")

def handle (args : List String) : String :=
  match args with
  | "sig" :: fields =>
    match parseFields fields with
    | some a =>
      match buildParams a, signatureOf a with
      | .ok _, .ok (sig, reported) =>
        "ok " ++ showList (sig.params.map showParam) ++ " | " ++ showTokens (render sig) ++ " | " ++
          (if reported then "ValueError" else "clean")
      | .error e, _ => showErr e
      | _, .error e => showErr e
    | none => "bad-op"
  | "read" :: toks =>
    match toks.mapM parseToken with
    | some ts =>
      match parseSig ts with
      | some a => "ok " ++ showFields a
      | none => "SyntaxError"
    | none => "bad-op"
  | "back" :: fields =>
    match parseFields fields with
    | some a =>
      match signatureOf a with
      | .ok (sig, _) =>
        match parseSig (render sig) with
        | some a' => "ok " ++ showFields a'
        | none => "SyntaxError"
      | .error e => showErr e
    | none => "bad-op"
  | "defs" :: n :: toks =>
    match n.toNat? with
    | some n =>
      match parseDefs n toks with
      | some ds =>
        match runDefs [] ds with
        | .ok c => "ok " ++ " || ".intercalate (c.map showFunc)
        | .error e => showErr e
      | none => "bad-op"
    | none => "bad-op"
  | ["unstring", a] =>
    match parseAnn a with
    | some e =>
      showAnn e.unstring ++ (if e.unstringE.isNone then " SyntaxError" else " clean")
    | none => "bad-op"
  | "decos" :: parent :: name :: decos =>
    match parseParent parent, Proto.decodeStr name, decos.mapM parseDeco with
    | some p, some n, some ds => showOutcome (handleDef p n ds)
    | _, _, _ => "bad-op"
  | ["fsig", how] =>
    match how with
    | "none" => showTokens (formatSignatureX none false)
    | "raises" => showTokens (formatSignatureX (some { params := [], ret := none }) true)
    | _ => "bad-op"
  | _ => "bad-op"

end Signature
