/-
Model of the line arithmetic behind every documentation warning pydoctor prints (property C16):

* `astutils.extract_docstring_linenum`, `astutils.extract_docstring` (= `inspect.cleandoc`, CPython
  3.12 `inspect.py`, transcribed: `expandtabs`, `split('\n')`, margin, `lstrip`, pops),
* `markup.ParseError.linenum`, `epydoc2stan.reportErrors` (`(err.linenum() or 1) - 1`),
  `epydoc2stan.Field.report`, `epydoc.docutils.get_lineno`,
* the per-parser conventions for the number that is stored (epytext `Token.startline`, docutils'
  `line`), stated as *assumed contracts* of the parsers (see `constructOffset`),
* `model.Documentable.report`, `model.System.msg`, `epydoc2stan.reportErrors` bookkeeping
  (`parse_errors`), and the tail of `driver.main` that computes the exit status.

A docstring literal is its *value* (`List Char`) together with the AST `lineno` of the string's
first physical line.  Generated literals contain no backslash-newline and no `\n` escape, so the
physical line of the character at index `p` of the value is `lineno + (number of '\n' before p)`.

Line numbers travel as `Int` where Python subtracts (`node.line - 1`, `linenum() - 1`); character
level results are `Nat`.  Import-free, executable, total.
-/
namespace Lineno

/-! ## `str.isspace` for one code point (CPython 3.12 `_PyUnicode_IsWhitespace`) -/

def pyIsSpace (c : Char) : Bool :=
  let n := c.toNat
  (9 ≤ n && n ≤ 13) || (28 ≤ n && n ≤ 32) || n == 0x85 || n == 0xA0 || n == 0x1680 ||
  (0x2000 ≤ n && n ≤ 0x200A) || n == 0x2028 || n == 0x2029 || n == 0x202F || n == 0x205F ||
  n == 0x3000

/-! ## `astutils.extract_docstring_linenum` (the `sys.version_info >= (3,8)` branch)

```
lineno = node.lineno
for ch in doc:
    if ch == '\n': lineno += 1
    elif not ch.isspace(): break
return lineno
``` -/

def extractLinenum : Nat → List Char → Nat
  | lineno, [] => lineno
  | lineno, ch :: rest =>
    if ch = '\n' then extractLinenum (lineno + 1) rest
    else if !pyIsSpace ch then lineno
    else extractLinenum lineno rest

/-! ## `inspect.cleandoc` -/

/-- `str.expandtabs()` (tabsize 8): the column restarts after `'\n'` and `'\r'`. -/
def expandtabsFrom : Nat → List Char → List Char
  | _, [] => []
  | col, c :: cs =>
    if c = '\t' then
      List.replicate (8 - col % 8) ' ' ++ expandtabsFrom (col + (8 - col % 8)) cs
    else if c = '\n' ∨ c = '\r' then c :: expandtabsFrom 0 cs
    else c :: expandtabsFrom (col + 1) cs

def expandtabs (s : List Char) : List Char := expandtabsFrom 0 s

/-- `s.split('\n')` as (first piece, remaining pieces): never empty, as in Python. -/
def splitNL1 : List Char → List Char × List (List Char)
  | [] => ([], [])
  | c :: cs =>
    let r := splitNL1 cs
    if c = '\n' then ([], r.1 :: r.2) else (c :: r.1, r.2)

def splitNL (s : List Char) : List (List Char) := (splitNL1 s).1 :: (splitNL1 s).2

/-- `'\n'.join(lines)` -/
def joinNL : List (List Char) → List Char
  | [] => []
  | [l] => l
  | l :: ls => l ++ '\n' :: joinNL ls

/-- `line.lstrip()` -/
def lstrip (l : List Char) : List Char := l.dropWhile pyIsSpace

/-- a line consisting of whitespace only (`len(line.lstrip()) == 0`) -/
def blank (l : List Char) : Bool := l.all pyIsSpace

/-- `len(line) - len(line.lstrip())` -/
def indentOf (l : List Char) : Nat := l.length - (lstrip l).length

/-- one turn of `for line in lines[1:]: content = len(line.lstrip()); if content: margin = min(margin, indent)`;
`none` stands for `sys.maxsize`. -/
def marginStep (m : Option Nat) (line : List Char) : Option Nat :=
  if (lstrip line).length ≠ 0 then
    match m with
    | none => some (indentOf line)
    | some k => some (min k (indentOf line))
  else m

def marginOf (tail : List (List Char)) : Option Nat := tail.foldl marginStep none

/-- `if margin < sys.maxsize: for i in range(1, len(lines)): lines[i] = lines[i][margin:]` -/
def dedentTail (m : Option Nat) (tail : List (List Char)) : List (List Char) :=
  match m with
  | none => tail
  | some k => tail.map (·.drop k)

/-- `while lines and not lines[-1]: lines.pop()` -/
def popTrailing : List (List Char) → List (List Char)
  | [] => []
  | l :: ls =>
    match popTrailing ls with
    | [] => if l.isEmpty then [] else [l]
    | r :: rs => l :: r :: rs

/-- `while lines and not lines[0]: lines.pop(0)` -/
def popLeading (ls : List (List Char)) : List (List Char) := ls.dropWhile (·.isEmpty)

/-- the list `lines` of `cleandoc` after the indentation has been removed, before the pops -/
def processed (doc : List Char) : List (List Char) :=
  let r := splitNL1 (expandtabs doc)
  lstrip r.1 :: dedentTail (marginOf r.2) r.2

def cleandocLines (doc : List Char) : List (List Char) := popLeading (popTrailing (processed doc))

def cleandoc (doc : List Char) : List Char := joinNL (cleandocLines doc)

/-- how many leading lines of the literal `cleandoc` removes -/
def dropped (doc : List Char) : Nat := ((popTrailing (processed doc)).takeWhile (·.isEmpty)).length

/-- `astutils.extract_docstring`: `(docstring_lineno, docstring)` -/
def extractDocstring (lineno : Nat) (doc : List Char) : Nat × List Char :=
  (extractLinenum lineno doc, cleandoc doc)

/-- number of `'\n'` in the value = index of the literal's last physical line -/
def newlines (doc : List Char) : Nat := (doc.filter (· = '\n')).length

/-- the literal contains a non-whitespace character (the cleaned docstring is not empty) -/
def hasText (doc : List Char) : Bool := !(doc.all pyIsSpace)

/-- Layout hypothesis under which `extract_docstring_linenum` and `cleandoc` agree: a whitespace-only
line *between the opening quotes and the first text line* is not longer (after `expandtabs`) than
the margin `cleandoc` removes.  Otherwise `cleandoc` keeps that line (it is not empty after the
margin is cut) while `extract_docstring_linenum` skips it. -/
def noOverIndent (doc : List Char) : Bool :=
  let r := splitNL1 (expandtabs doc)
  !blank r.1 ||
    (r.2.takeWhile blank).all fun l =>
      match marginOf r.2 with
      | some k => decide (l.length ≤ k)
      | none => l.isEmpty

/-! ## Python truthiness helpers -/

/-- `x or d` for `x : Optional[int]` -/
def pyOr (x : Option Int) (d : Int) : Int :=
  match x with
  | none => d
  | some v => if v = 0 then d else v

def truthy (x : Option Int) : Bool :=
  match x with
  | none => false
  | some v => v ≠ 0

/-! ## `ParseError`, `reportErrors`, `Field`, `get_lineno` -/

/-- `ParseError.linenum()`: `None if self._linenum is None else self._linenum + 1` -/
def parseErrorLinenum (stored : Option Int) : Option Int := stored.map (· + 1)

/-- `reportErrors`: `lineno_offset = (err.linenum() or 1) - 1` -/
def reportErrorsOffset (stored : Option Int) : Int := pyOr (parseErrorLinenum stored) 1 - 1

/-- an ancestor of the reference node as `get_lineno` sees it: its `.line` and, when both
`rawsource`s exist and the node's is found in the ancestor's,
`parent_rawsource[:parent_rawsource.index(node_rawsource)].count('\n')`. -/
structure Anc where
  line : Option Int
  nlBefore : Option Int
  deriving Repr

/-- `get_first_parent_lineno` -/
def firstParentLineno : List Anc → Int
  | [] => 0
  | a :: rest =>
    if truthy a.line then
      (a.line.getD 0 - 1) + (a.nlBefore.getD 0)
    else firstParentLineno rest

/-- `epydoc.docutils.get_lineno(node)`; `ancs` = `node.parent`, its parent, … -/
def getLineno (nodeLine : Option Int) (ancs : List Anc) : Int :=
  if truthy nodeLine then nodeLine.getD 0 else firstParentLineno ancs

inductive Fmt | epytext | rst | google | numpy
  deriving DecidableEq, Repr, Inhabited

inductive Cls | markupError | unknownField | badParam | badXref
  deriving DecidableEq, Repr, Inhabited

/-- The `lineno_offset` handed to `Documentable.report` for a construct whose paragraph / list item /
field starts on line `i` (0-based) of the *cleaned* docstring, the construct itself sitting `j` lines
further down inside that block; `base` is the number docutils gives to the first line (1 in reality,
see `docutilsBase`; kept as a parameter so that the hypothesis under which reStructuredText markup
errors would be right can be stated).  This is where the assumed contracts of the parsers enter:

* epytext: `Token.startline` of the paragraph / bullet token is `i`; it is what `StructuringError`,
  `ColorizingError`, the field's `lineno` attribute and the link target's `lineno` carry;
  epytext nodes built by `to_node` have no `line` except the `title_reference` (set to `startline`).
* reStructuredText: docutils' `system_message['line']`, `field.line` and `paragraph.line` are the
  1-based line of the block's first line, i.e. `i + base`; inline nodes have no `line`; the paragraph's
  `rawsource` contains the reference's `rawsource` first after `j` newlines.
* `_EpydocReader.report` stores docutils' `line` unchanged; `_SplitFieldsTranslator` stores
  `node.line - 1`; `get_lineno` subtracts 1 from the ancestor's line. -/
def constructOffsetB (base : Int) : Fmt → Cls → Int → Int → Int
  | .epytext, .markupError, i, _ => reportErrorsOffset (some i)
  | .epytext, .unknownField, i, _ => i
  | .epytext, .badParam, i, _ => i
  | .epytext, .badXref, i, _ => getLineno (some i) [⟨none, none⟩, ⟨none, none⟩]
  | _, .markupError, i, _ => reportErrorsOffset (some (i + base))
  | _, .unknownField, i, _ => (i + base) - 1
  | _, .badParam, i, _ => (i + base) - 1
  | _, .badXref, i, j => getLineno none [⟨some (i + base), some j⟩]

/-- what the parser itself stores for a markup error of the block on cleaned line `i`
(`ParseError._linenum`): epytext `Token.startline`; reStructuredText docutils' line, unchanged -/
def errorStoredLinenum (base : Int) : Fmt → Int → Int
  | .epytext, i => i
  | _, i => i + base

/-- what the parser stores as `Field.lineno` for a field starting on cleaned line `i` -/
def fieldStoredLineno (base : Int) : Fmt → Int → Int
  | .epytext, i => i
  | _, i => (i + base) - 1

/-- docutils numbers lines from 1 (`base` above) -/
def docutilsBase : Int := 1

def constructOffset (fmt : Fmt) (cls : Cls) (i j : Int) : Int := constructOffsetB docutilsBase fmt cls i j

/-! ## string literals as written: continuation lines, `\\n` escapes, implicit concatenation

`extract_docstring_linenum`'s docstring: "This approximation is correct if the docstring does not
contain explicit newlines ('\\n') or joined lines ('\\' at end of line)".  The body of a (possibly
implicitly concatenated) string literal is a sequence of pieces: -/

inductive Piece
  | ch (c : Char)   -- an ordinary character of the value (not a newline)
  | nl              -- a physical newline inside a triple-quoted literal: `'\n'` in the value
  | cont            -- a physical newline that leaves nothing in the value: backslash-newline, or the
                    -- line break between two implicitly concatenated literals
  | escNl           -- the escape `\n`: `'\n'` in the value, no physical newline
  deriving DecidableEq, Repr, Inhabited

def Piece.value : Piece → List Char
  | .ch c => [c]
  | .nl => ['\n']
  | .cont => []
  | .escNl => ['\n']

def Piece.physNl : Piece → Nat
  | .nl => 1 | .cont => 1 | _ => 0

def Piece.valNl : Piece → Nat
  | .nl => 1 | .escNl => 1 | _ => 0

/-- the string value CPython builds -/
def valueOf (ps : List Piece) : List Char := ps.flatMap Piece.value

def physNls (ps : List Piece) : Nat := (ps.map Piece.physNl).sum
def valNls (ps : List Piece) : Nat := (ps.map Piece.valNl).sum
def conts (ps : List Piece) : Nat := (ps.filter (· = .cont)).length
def escNls (ps : List Piece) : Nat := (ps.filter (· = .escNl)).length

/-- physical line of piece `k` (the literal starts on line `sl`) -/
def physLineAt (sl : Nat) (ps : List Piece) (k : Nat) : Nat := sl + physNls (ps.take k)

/-- index of the value line piece `k` is on (`value[:pos].count('\n')`) -/
def valueLineAt (ps : List Piece) (k : Nat) : Nat := valNls (ps.take k)

/-! ## `epydoc.docutils.get_lineno` with the `rawsource` search spelled out -/

/-- `hay.index(needle)` when `needle in hay` -/
def findSub (needle : List Char) : List Char → Option Nat
  | [] => if needle.isEmpty then some 0 else none
  | c :: cs =>
    if needle.isPrefixOf (c :: cs) then some 0
    else (findSub needle cs).map (· + 1)

structure RawAnc where
  line : Option Int
  rawsource : List Char
  deriving Repr

/-- `parent_rawsource = _node.rawsource or None`, `node_rawsource = node.rawsource or None`; when both
exist and the node's is found: `parent_rawsource[:index].count('\n')` -/
def ancOf (nodeRaw : List Char) (a : RawAnc) : Anc :=
  ⟨a.line,
   if a.rawsource.isEmpty || nodeRaw.isEmpty then none
   else (findSub nodeRaw a.rawsource).map fun i => ((newlines (a.rawsource.take i) : Nat) : Int)⟩

def getLinenoRaw (nodeLine : Option Int) (nodeRaw : List Char) (ancs : List RawAnc) : Int :=
  getLineno nodeLine (ancs.map (ancOf nodeRaw))

/-! ## `--process-types`: warnings of a type field

`markup.processtypes`: `append_warnings(body.warnings, errs, lineno=field.lineno+1)` creates
`ParseError(warn, linenum=field.lineno + 1)`; `field.lineno` is already 0-based. -/

def typeWarningOffset (fieldLineno : Int) : Int := reportErrorsOffset (some (fieldLineno + 1))

/-! ## an attribute documented by a field of its class and / or by its own docstring

`extract_fields` (run when the class / module docstring is seen, before the body) gives the
attribute `parsed_docstring = field.body()` and, `if not attrobj.docstring_lineno`, the line of the
field.  A later `setDocstring` (the string after the assignment) overwrites `docstring` and
`docstring_lineno` but leaves `parsed_docstring`.  `ensure_parsed_docstring` then finds
`parsed_docstring` already set, so the *field's* text is rendered, with `source = obj` because the
object has a docstring of its own (`source = obj.parent` only when it has none). -/

structure AttrDoc where
  docstringLineno : Int := 0
  hasOwnDocstring : Bool := false
  parsedFromField : Bool := false
  deriving Repr, Inhabited, DecidableEq

def AttrDoc.extractField (a : AttrDoc) (classDl fieldLineno : Int) : AttrDoc :=
  { a with docstringLineno := if a.docstringLineno = 0 then classDl + fieldLineno else a.docstringLineno
           parsedFromField := true }

def AttrDoc.setDocstring (a : AttrDoc) (dl : Int) : AttrDoc :=
  { a with docstringLineno := dl, hasOwnDocstring := true }

/-- whose text is rendered: `true` = the field's -/
def AttrDoc.rendersField (a : AttrDoc) : Bool := a.parsedFromField

/-- `docstring_lineno` of the object the problems are reported on: the attribute when it has a
docstring of its own (`get_docstring` returns it as source), else its parent -/
def AttrDoc.reportBase (a : AttrDoc) (classDl : Int) : Int :=
  if a.hasOwnDocstring then a.docstringLineno else classDl

/-- line reported for a cross-reference in the rendered text; `off` = `get_lineno` of the reference:
relative to the class docstring for the field's text, to the own docstring otherwise -/
def AttrDoc.xrefLine (a : AttrDoc) (classDl off : Int) : Int := a.reportBase classDl + off

/-! ## napoleon: a parameter section (`Args:` / `Parameters`) as the converter rewrites it

Lines before the section are copied one for one.  google: the header line disappears; an entry
`name (type): desc` + `cont` continuation lines becomes `:param name: desc` + the continuation
lines + (`:type name: type` when typed).  numpy: the two header lines disappear; an entry
`name : type` + `desc` description lines becomes `:param name: …` taking `max desc 1` lines +
(`:type name: type` when typed). -/

structure Entry where
  typed : Bool
  extra : Nat      -- google: continuation lines; numpy: description lines
  deriving Repr, Inhabited

def Entry.inLines (_numpy : Bool) (e : Entry) : Nat := 1 + e.extra
def Entry.paramLines (numpy : Bool) (e : Entry) : Nat := if numpy then max e.extra 1 else 1 + e.extra
def Entry.outLines (numpy : Bool) (e : Entry) : Nat := e.paramLines numpy + (if e.typed then 1 else 0)

def headerLines (numpy : Bool) : Nat := if numpy then 2 else 1

/-- input line (0-based, cleaned docstring) of entry `k`; `hdr` = line of the section header -/
def entryInLine (numpy : Bool) (hdr : Nat) (es : List Entry) (k : Nat) : Nat :=
  hdr + headerLines numpy + ((es.take k).map (Entry.inLines numpy)).sum

/-- line of `:param name:` of entry `k` in the converted text -/
def paramOutLine (numpy : Bool) (hdr : Nat) (es : List Entry) (k : Nat) : Nat :=
  hdr + ((es.take k).map (Entry.outLines numpy)).sum

/-- line of `:type name:` of entry `k` in the converted text (when typed) -/
def typeOutLine (numpy : Bool) (hdr : Nat) (es : List Entry) (k : Nat) : Nat :=
  paramOutLine numpy hdr es k + ((es[k]?).map (Entry.paramLines numpy)).getD 0

def typedCount (es : List Entry) : Nat := (es.filter (·.typed)).length

/-- `lineno_offset` of "Documented parameter … does not exist" for entry `k` of a google / numpy parameter
section: the converted text goes through the reStructuredText reader, `Field.lineno` = line of `:param` -/
def convertedParamOffset (numpy : Bool) (hdr : Nat) (es : List Entry) (k : Nat) : Int :=
  fieldStoredLineno docutilsBase .rst (paramOutLine numpy hdr es k)

/-- `lineno_offset` of an unresolvable name in the type of entry `k`: `processtypes` builds
`ParsedTypeDocstring(…, lineno=field.lineno)` for the `:type` field and links with that number -/
def convertedTypeOffset (numpy : Bool) (hdr : Nat) (es : List Entry) (k : Nat) : Int :=
  fieldStoredLineno docutilsBase .rst (typeOutLine numpy hdr es k)

/-! ## `Documentable.report` -/

inductive Sec | docstring | xref | other
  deriving DecidableEq, Repr, Inhabited

structure Obj where
  docstringLineno : Int    -- `docstring_lineno` (class default 0)
  linenumber : Int         -- `linenumber` (class default 0; modules keep 0)
  isModule : Bool          -- `self.module is self`
  deriving Repr, Inhabited

inductive Line | num (n : Int) | unknown     -- `unknown` prints as `???`
  deriving DecidableEq, Repr, Inhabited

/--
```
if section in ('docstring', 'resolve_identifier_xref'): linenumber = self.docstring_lineno or self.linenumber
else: linenumber = self.linenumber
if linenumber: linenumber += lineno_offset
elif lineno_offset and self.module is self: linenumber = lineno_offset
else: linenumber = '???'
``` -/
def report (o : Obj) (sec : Sec) (off : Int) : Line :=
  let ln := if sec = .docstring ∨ sec = .xref then pyOr (some o.docstringLineno) o.linenumber
            else o.linenumber
  if ln ≠ 0 then .num (ln + off)
  else if off ≠ 0 ∧ o.isModule then .num off
  else .unknown

def secOf : Cls → Sec
  | .badXref => .xref
  | _ => .docstring

/-- the object a docstring literal is attached to by `setDocstring` -/
def docObj (strLineno : Nat) (doc : List Char) (linenumber : Int) (isModule : Bool) : Obj :=
  ⟨(extractLinenum strLineno doc : Nat), linenumber, isModule⟩

/-- a planted construct: class, index of its block's first line in `value.split('\n')`, and the
line offset of the construct inside the block -/
structure Construct where
  cls : Cls
  raw : Nat
  j : Nat
  deriving Repr, Inhabited

/-- line printed for one construct (docutils line base as parameter) -/
def reportedLineB (base : Int) (fmt : Fmt) (strLineno : Nat) (doc : List Char) (linenumber : Int)
    (isModule : Bool) (c : Construct) : Line :=
  report (docObj strLineno doc linenumber isModule) (secOf c.cls)
    (constructOffsetB base fmt c.cls ((c.raw : Int) - (dropped doc : Nat)) c.j)

/-- line printed for one construct -/
def reportedLine (fmt : Fmt) (strLineno : Nat) (doc : List Char) (linenumber : Int) (isModule : Bool)
    (c : Construct) : Line :=
  reportedLineB docutilsBase fmt strLineno doc linenumber isModule c

/-! ### inherited docstrings: which object a problem is reported on

`parse_docstring(obj, doc, source)`: `obj` is the object being documented, `source` the object the
docstring was written on (`model.get_docstring` walks `docsources()`; they differ when a method or
attribute without docstring overrides a documented one).  Everything about the docstring is reported
on `source`: `reportErrors(source, errs)`, `Field.source = source` (`Field.report`), and
`format_docstring` renders with `source.docstring_linker`, whose `reporting_obj` is `source`.  The
file name printed is `source.description`, the line base `source.docstring_lineno`. -/

structure Located where
  file : Nat          -- identity of the module file (`Documentable.description`)
  obj : Obj
  deriving Repr, Inhabited

/-- the object the report is made on -/
def reportTarget (source _obj : Located) : Located := source

/-- file and line printed when `_obj` shows the docstring written on `source` -/
def reportInherited (source obj : Located) (sec : Sec) (off : Int) : Nat × Line :=
  ((reportTarget source obj).file, report (reportTarget source obj).obj sec off)

/-- the same for a planted construct of the source's literal -/
def reportedAt (fmt : Fmt) (strLineno : Nat) (doc : List Char) (source obj : Located) (c : Construct) :
    Nat × Line :=
  reportInherited ⟨source.file, docObj strLineno doc source.obj.linenumber source.obj.isModule⟩ obj
    (secOf c.cls) (constructOffset fmt c.cls ((c.raw : Int) - (dropped doc : Nat)) c.j)

/-! ### `obj.__doc__ = "…"` (`astbuilder._handleDocstringUpdate`)

The assigned text becomes `obj.docstring` (cleaned like a literal) and `parsed_docstring` is reset.
Since pydoctor af7dc4e `docstring_lineno` is taken from the assigned expression:
`extract_docstring_linenum(expr)` when it is a string constant (on line `sl`, value `v`), else
`getattr(expr, 'lineno', lineno)`.  `linenumber` stays the line of the definition. -/

def Obj.assignDoc (o : Obj) (sl : Nat) (v : List Char) : Obj :=
  { o with docstringLineno := (extractLinenum sl v : Nat) }

/-- the assigned expression is not a constant (e.g. `"a" + "b"`): its `lineno` -/
def Obj.assignDocExpr (o : Obj) (exprLineno : Int) : Obj := { o with docstringLineno := exprLineno }

/-- line reported for a problem `off` lines into the text assigned by the literal on line `sl` -/
def reportAfterDocAssignment (o : Obj) (sl : Nat) (v : List Char) (sec : Sec) (off : Int) : Line :=
  report (o.assignDoc sl v) sec off

/-- before af7dc4e: `docstring_lineno` was left as the definition's own docstring literal gave it
(0 when there was none) -/
def Obj.assignDocOld (o : Obj) : Obj := o

def reportAfterDocAssignmentOld (o : Obj) (sec : Sec) (off : Int) : Line := report o.assignDocOld sec off

/-! ### docutils counts lines with `str.splitlines()`

docutils' `statemachine.string2lines` splits the text with `str.splitlines()` (after turning `\v`
and `\f` into spaces).  Besides `'\n'` that breaks lines at U+001C, U+001D, U+001E, U+0085, U+2028,
U+2029 — characters the Python tokenizer, `inspect.cleandoc` and `extract_docstring_linenum` do not
treat as line ends.  Since pydoctor ce72216 `restructuredtext.parse_docstring` replaces these
characters by a blank before it calls docutils, so docutils' line structure is the `'\n'` structure. -/

def isExtraBreak (c : Char) : Bool :=
  let n := c.toNat
  (0x1C ≤ n && n ≤ 0x1E) || n == 0x85 || n == 0x2028 || n == 0x2029

/-- `re.sub('[\x1c\x1d\x1e\x85\u2028\u2029]', ' ', docstring)` -/
def blankExtraBreaks (doc : List Char) : List Char := doc.map fun c => if isExtraBreak c then ' ' else c

/-- extra line breaks docutils sees before line `i` of a text -/
def extraBreaksIn (lines : List (List Char)) (i : Nat) : Nat :=
  ((lines.take i).map fun l => (l.filter isExtraBreak).length).sum

/-- extra line breaks docutils would see before cleaned line `i` of the docstring as written -/
def extraBreaksBefore (doc : List Char) (i : Nat) : Nat := extraBreaksIn (cleandocLines doc) i

def noExtraBreaks (doc : List Char) : Bool := !(doc.any isExtraBreak)

def shiftLine (l : Line) (k : Int) : Line :=
  match l with
  | .num n => .num (n + k)
  | .unknown => .unknown

/-- lone carriage returns of a line of the cleaned text: `'\r'` not followed by the `'\n'` that ends the
line.  `str.splitlines()` breaks there too, and ce72216's substitution does not cover `'\r'`
(`'\v'` and `'\f'` are turned into blanks by docutils itself before it splits). -/
def loneCRs (l : List Char) : Nat :=
  (l.filter (· = '\r')).length - (if l.getLast? = some '\r' then 1 else 0)

def loneCRsIn (lines : List (List Char)) (i : Nat) : Nat := ((lines.take i).map loneCRs).sum

/-- every character at which `str.splitlines()` breaks and Python does not (napoleon splits the
google / numpy docstring with it, unfiltered) -/
def isSplitlinesBreak (c : Char) : Bool := isExtraBreak c || c.toNat == 0x0B || c.toNat == 0x0C

def allBreaksIn (lines : List (List Char)) (i : Nat) : Nat :=
  ((lines.take i).map fun l => (l.filter isSplitlinesBreak).length + loneCRs l).sum

/-- lines docutils / napoleon count in addition to the `'\n'` lines before cleaned line `i` -/
def lineShift (fmt : Fmt) (doc : List Char) (i : Nat) : Nat :=
  match fmt with
  | .epytext => 0                                      -- `text.split('\n')`
  | .rst => extraBreaksIn ((cleandocLines doc).map blankExtraBreaks) i + loneCRsIn (cleandocLines doc) i
  | _ => allBreaksIn (cleandocLines doc) i             -- napoleon: `docstring.splitlines()`

/-- line printed for a construct with the line structure of the parser that reads the text -/
def reportedLineS (fmt : Fmt) (strLineno : Nat) (doc : List Char) (linenumber : Int) (isModule : Bool)
    (c : Construct) : Line :=
  shiftLine (reportedLine fmt strLineno doc linenumber isModule c) (lineShift fmt doc (c.raw - dropped doc) : Nat)

/-- before ce72216 docutils saw the characters themselves -/
def reportedLineSOld (fmt : Fmt) (strLineno : Nat) (doc : List Char) (linenumber : Int) (isModule : Bool)
    (c : Construct) : Line :=
  shiftLine (reportedLine fmt strLineno doc linenumber isModule c)
    (if fmt = .epytext then 0 else (extraBreaksBefore doc (c.raw - dropped doc) : Nat))

/-! ### pydoctor's own reST directives `versionadded` / `versionchanged` / `deprecated`

`VersionChange.run` builds the paragraph for the text after the version number without a line;
`node.append(para)` lets docutils stamp it with `document.current_line`, the line at which the state
machine stands after it consumed the directive block: the line after the block (0-based `i + span + 1`
for a directive on line `i` whose block extends `span` lines further), or the last line of the text
when the block ends it.  The inline wrapper copies that line and `get_lineno` starts from it. -/

def versionArgXrefOffset (i span n j : Int) : Int :=
  getLineno none [⟨some (min (i + span + 1) (n - 1) + 1), some j⟩]

/-! ### reST section titles

docutils gives a `title` node the line of its underline; `get_lineno` takes it as the title's first
line.  For objects with a page of their own (modules, classes) `format_toc` renders the table of
contents built from copies of the titles (no ancestor with a line) with a linker that still reports:
the same name was reported a second time with offset 0 (until fcb5e8a). -/

def sectionTitleXrefOffset (base i j : Int) : Int := getLineno none [⟨some (i + 1 + base), some j⟩]

/-- before fcb5e8a: offset of the second report made while the table of contents was rendered -/
def tocXrefOffsetOld : Int := getLineno none [⟨none, none⟩, ⟨none, none⟩]

/-- `format_toc` since fcb5e8a: the table of contents is rendered under `switch_context(obj)` with
`linker.reporting_obj = None`; `link_xref` reports only `if self.reporting_obj` -/
def tocReportingObj : Option Obj := none

/-- reports made while an object's table of contents is rendered -/
def tocReports (titleRefs : List Int) : List Line :=
  match tocReportingObj with
  | none => []
  | some o => titleRefs.map fun _ => report o .xref tocXrefOffsetOld

/-! ### objects moved by a re-export

`Documentable.description` (the file name in front of every warning) is `str(self.source_path)`;
`source_path` is fixed when the object is created (`__init__`: given, or copied from the parent at
that moment).  `Documentable.reparent` — what an `__all__` re-export does — changes `parent`,
`parentMod` and `name`, never `source_path`, `docstring_lineno` or `linenumber`. -/

structure Placed where
  srcFile : Nat          -- `source_path`, recorded at creation
  moduleFile : Nat       -- file of the module the object currently lives in (`self.module.source_path`)
  obj : Obj
  deriving Repr, Inhabited

/-- `Documentable.reparent(new_parent, new_name)` as far as reporting is concerned -/
def Placed.reparent (p : Placed) (newModuleFile : Nat) : Placed := { p with moduleFile := newModuleFile }

/-- `Documentable.description` -/
def Placed.descriptionFile (p : Placed) : Nat := p.srcFile

/-- file and line of a report made on a (possibly moved) object -/
def reportPlaced (p : Placed) (sec : Sec) (off : Int) : Nat × Line := (p.descriptionFile, report p.obj sec off)

/-! ### reStructuredText fields: the three callers of `_SplitFieldsTranslator._add_field`

`_add_field(tagname, arg, fbody, lineno)` stores `Field(…, lineno - 1)`.  Its callers hand it
docutils' 1-based line of: the field node (`visit_field`: `node.line`), the first paragraph of a
bullet item of a consolidated field (`handle_consolidated_bullet_list`: `fbody[0].line`), the term
of a definition-list item (`handle_consolidated_definition_list`: `item[0].line`). -/

inductive FieldCaller | visitField | bulletItem | deflistItem
  deriving DecidableEq, Repr, Inhabited

/-- the `lineno` argument: docutils' line of the node named above, whose first line is line `i`
(0-based) of the cleaned docstring -/
def callerLine (base : Int) : FieldCaller → Int → Int
  | .visitField, i => i + base
  | .bulletItem, i => i + base
  | .deflistItem, i => i + base

def addFieldLineno (lineno : Int) : Int := lineno - 1

def rstFieldLineno (base : Int) (c : FieldCaller) (i : Int) : Int := addFieldLineno (callerLine base c i)

/-- A cross-reference inside the *classifier* of a definition-list entry (`name : `Type``): the
classifier's children are moved into a fresh document (`_add_field('type', arg, type_descr, lineno)`)
whose `line` `_add_field` sets to its `lineno` argument (the entry's 1-based line); the reference's
only ancestor is that document node (no `rawsource`), so `get_lineno` gives `lineno - 1`. -/
def classifierXrefOffset (base : Int) (i : Int) : Int :=
  getLineno none [⟨some (callerLine base .deflistItem i), none⟩]

/-- before pydoctor c88d52b the fresh document had no `line`: `get_lineno` ended in 0 -/
def classifierXrefOffsetOld : Int := getLineno none [⟨none, none⟩]

/-- which planted constructs are reported: an epytext docstring with a (fatal) markup error is
re-parsed as plain text, so only its errors are reported -/
def reportedConstructs (fmt : Fmt) (cs : List Construct) : List Construct :=
  if fmt = .epytext ∧ cs.any (fun c => c.cls = .markupError) then
    cs.filter (fun c => c.cls = .markupError)
  else cs

/-- the physical span of the literal: first and last line -/
def inSpan (strLineno : Nat) (doc : List Char) (l : Line) : Bool :=
  match l with
  | .num n => decide ((strLineno : Int) ≤ n) && decide (n ≤ (strLineno : Int) + (newlines doc : Nat))
  | .unknown => false

/-! ## `System.msg`, `parse_errors`, `driver.main` -/

structure Sys where
  violations : Nat := 0
  /-- `parse_errors: defaultdict(set)`: section ↦ names; a key can exist with an empty set -/
  parseErrors : List (Nat × List Nat) := []
  onceMsgs : List (Nat × Nat) := []
  /-- `reported_errors`: (section, object, phase) triples `reportErrors` has reported already -/
  reportedErrors : List (Nat × Nat × Nat) := []
  verbosity : Int := 0
  printed : Nat := 0
  deriving Repr, Inhabited

/--
```
if once:
    if (section, msg) in self.once_msgs: return
    else: self.once_msgs.add((section, msg))
if thresh < 0: self.violations += 1
if thresh <= self.options.verbosity <= topthresh: print(msg)
``` -/
def Sys.msg (s : Sys) (sec m : Nat) (thresh : Int) (topthresh : Int := 100) (once : Bool := false) : Sys :=
  if once && s.onceMsgs.contains (sec, m) then s
  else
    { s with
      onceMsgs := if once then (sec, m) :: s.onceMsgs else s.onceMsgs
      violations := if thresh < 0 then s.violations + 1 else s.violations
      printed := if thresh ≤ s.verbosity ∧ s.verbosity ≤ topthresh then s.printed + 1 else s.printed }

def lookup (k : Nat) : List (Nat × List Nat) → Option (List Nat)
  | [] => none
  | (k', v) :: rest => if k' = k then some v else lookup k rest

/-- `parse_errors[k]` on a `defaultdict(set)`: creates the key -/
def touch (k : Nat) (pe : List (Nat × List Nat)) : List (Nat × List Nat) :=
  match lookup k pe with
  | some _ => pe
  | none => pe ++ [(k, [])]

def addName (k name : Nat) : List (Nat × List Nat) → List (Nat × List Nat)
  | [] => [(k, [name])]
  | (k', v) :: rest => if k' = k then (k', if v.contains name then v else v ++ [name]) :: rest
                       else (k', v) :: addName k name rest

/-- `Documentable.report` seen from the system: one `msg` with `thresh=-1` (the default) -/
def Sys.report (s : Sys) (sec m : Nat) : Sys := s.msg sec m (-1)

def Sys.reportN (s : Sys) (sec : Nat) : List Nat → Sys
  | [] => s
  | m :: ms => (s.report sec m).reportN sec ms

/--
```
if not errs: return
errors = obj.system.parse_errors[section]
reported = obj.system.reported_errors
if (section, obj, phase) not in reported:       # the object itself (b867a76), once per phase
    reported.add((section, obj, phase))
    errors.add(obj.fullName())
    for err in errs: obj.report(...)
```
`obj` identifies the object, `name` its full name at that moment; `phase` 0 = 'parsing', 1 = 'rendering'. -/
def Sys.reportErrors (s : Sys) (sec obj : Nat) (errs : List Nat) (phase : Nat := 0) (name : Nat := obj) : Sys :=
  if errs.isEmpty then s
  else
    let s1 := { s with parseErrors := touch sec s.parseErrors }
    if s1.reportedErrors.contains (sec, obj, phase) then s1
    else ({ s1 with reportedErrors := (sec, obj, phase) :: s1.reportedErrors
                    parseErrors := addName sec name s1.parseErrors }).reportN sec errs

def anyParseErrors (s : Sys) : Bool := s.parseErrors.any fun p => !p.2.isEmpty

/-- section id of `'docstring'` -/
def secDocstring : Nat := 0

/-- the summary `p(...)` calls of `main`: `system.msg('docstring-summary', msg, thresh=-1, topthresh=1)` -/
def Sys.summary (s : Sys) : Nat → Sys
  | 0 => s
  | n + 1 => (s.msg 1000000 (n + 1) (-1) 1).summary n

/-- the part of `driver.main` after `make(system)`: returns the exit code and the final system -/
def mainTail (s : Sys) (warningsAsErrors : Bool) : Nat × Sys :=
  let s0 := { s with parseErrors := touch secDocstring s.parseErrors }
  let dse := (lookup secDocstring s0.parseErrors).getD []
  let r : Nat × Sys :=
    if !dse.isEmpty then (2, s0.summary (1 + dse.length))
    else if anyParseErrors s0 then (2, s0)
    else (0, s0)
  if r.2.violations ≠ 0 ∧ warningsAsErrors then (3, r.2) else r

end Lineno
