/-
Model for property C05 (inheritance as Python computes it).  Import-free, executable.

`namespace Mro`  — pydoctor side, transcribed from
  * pydoctor/mro.py: `Dependency.head/tail`, `DependencyList.__contains__/heads/exhausted/remove`,
    `_merge`, `mro`
  * pydoctor/model.py: `Class._init_mro` (report + fallback `allbases(True)`), `Class.mro()`,
    `Class.allbases`, `Class.find`, `Inheritable.docsources`, `get_docstring`

`namespace PyMro` — CPython side, transcribed from Objects/typeobject.c (3.12):
  `tail_contains`, `pmerge` (index vector `remain`), `check_duplicates`, `mro_implementation`
  (single-base fast path), `type_new`'s implicit `object` base, `_PyType_Lookup` (first class of
  the MRO whose `__dict__` has the name).

Classes are natural numbers.  A hierarchy is `bases : Nat → List Nat`.  A linearisation that
cannot be computed (`ValueError` in pydoctor, `TypeError` in CPython) is `none`.

Loops are turned into recursion with fuel; `Mro.merge`/`PyMro.pmerge`/`mro` fix the fuel to a
value that `PdProps.C05` proves sufficient (`mergeFuel_stable`, `mroFuel_stable`), so `none` always
means "the Python code raises", never "out of fuel".

`if head and …` in `_merge` tests the truthiness of the head: `None` (empty list) is skipped.
Class objects and non-empty base-name strings are always truthy (`Documentable` defines neither
`__bool__` nor `__len__`), so the model only skips the heads of empty lists.
-/
namespace Mro

/-- `[f(x) for x in xs]` where `f` may raise: the first exception propagates. -/
def mapOpt {α β : Type} (f : α → Option β) : List α → Option (List β)
  | [] => some []
  | x :: xs =>
    match f x with
    | none => none
    | some y =>
      match mapOpt f xs with
      | none => none
      | some ys => some (y :: ys)

/-- `Dependency.head`: first element or `None`. -/
def head (l : List Nat) : Option Nat := l.head?

/-- `item in l.tail` (`islice(self, 1, len(self))`). -/
def inTail (x : Nat) (l : List Nat) : Bool := l.tail.contains x

/-- `DependencyList.__contains__`: `any([item in l.tail for l in self._lists])`. -/
def inTails (x : Nat) (ls : List (List Nat)) : Bool := ls.any (inTail x)

/-- `DependencyList.exhausted`: `all(map(lambda x: len(x) == 0, self._lists))`. -/
def exhausted (ls : List (List Nat)) : Bool := ls.all List.isEmpty

/-- body of `DependencyList.remove` for one deque: `if i and i.head == item: i.popleft()`. -/
def pop (x : Nat) : List Nat → List Nat
  | [] => []
  | h :: t => if h = x then t else h :: t

/-- `DependencyList.remove(item)`. -/
def remove (x : Nat) (ls : List (List Nat)) : List (List Nat) := ls.map (pop x)

/-- `for head in linearizations.heads: if head and (head not in linearizations.tails): … break`
— the first head that exists and occurs in no tail; `none` is the `else:` branch of the loop. -/
def pick (ls : List (List Nat)) : List (Option Nat) → Option Nat
  | [] => none
  | none :: hs => pick ls hs
  | some h :: hs => if inTails h ls then pick ls hs else some h

/-- `_merge`: the `while True` loop.  `result.append(head)` followed by the rest of the loop is
written as `head :: (rest of the loop)`. -/
def mergeFuel : Nat → List (List Nat) → Option (List Nat)
  | 0, _ => none
  | f+1, ls =>
    if exhausted ls then some []
    else
      match pick ls (ls.map head) with
      | none => none            -- raise ValueError('Cannot compute linearization …')
      | some h => (mergeFuel f (remove h ls)).map (h :: ·)

def size (ls : List (List Nat)) : Nat := (ls.map List.length).sum

/-- `_merge(*lists)`; every round pops at least one element, so `size + 1` rounds suffice. -/
def merge (ls : List (List Nat)) : Option (List Nat) := mergeFuel (size ls + 1) ls

/-- `mro(cls, getbases)`:
`[cls]` if no bases else `[cls] + _merge(*[mro(k) for k in getbases(cls)], getbases(cls))`. -/
def mroFuel (bases : Nat → List Nat) : Nat → Nat → Option (List Nat)
  | 0, _ => none
  | f+1, c =>
    if (bases c).isEmpty then some [c]
    else
      match mapOpt (mroFuel bases f) (bases c) with
      | none => none
      | some lins => (merge (lins ++ [bases c])).map (c :: ·)

/-- On a hierarchy whose bases are smaller than the class, depth `c + 1` suffices. -/
def mro (bases : Nat → List Nat) (c : Nat) : Option (List Nat) := mroFuel bases (c + 1) c

/-! ### model.py -/

/-- `compute_mro.localbases` (= `getbases` for a class): the bases as the linearisation sees them.
A raw base is `(what it denotes, is it written as a subscript)`; `gen b` says that `b` is the
unresolved name `typing.Generic` / `typing_extensions.Generic`.  Such a base is skipped when a
later raw base is a subscript (typing's `__mro_entries__` drops it). -/
def localBases (gen : Nat → Bool) : List (Nat × Bool) → List Nat
  | [] => []
  | (b, _) :: rest =>
    if gen b && rest.any (·.2) then localBases gen rest else b :: localBases gen rest

/-- `localbases` before commit 749fc3a: every base is kept. -/
def localBasesOld (raw : List (Nat × Bool)) : List Nat := raw.map (·.1)

/-- `Class.allbases(include_self=True)`: depth first, duplicates kept, unresolved (external, i.e.
`None` in `baseobjects`) bases skipped. -/
def allbasesFuel (bases : Nat → List Nat) (ext : Nat → Bool) : Nat → Nat → List Nat
  | 0, _ => []
  | f+1, c => c :: ((bases c).filter (fun b => !ext b)).flatMap (allbasesFuel bases ext f)

def allbases (bases : Nat → List Nat) (ext : Nat → Bool) (c : Nat) : List Nat :=
  allbasesFuel bases ext (c + 1) c

/-- `Class._init_mro`:
```
try: self._mro = compute_mro(self)
except ValueError as e:
    self.report(str(e), 'mro'); self._mro = list(self.allbases(True))
```
Result: `_mro` and the list of classes for which a report of section `'mro'` with the message
"Cannot compute linearization of the class inheritance hierarchy" was made. -/
def initMro (bases : Nat → List Nat) (ext : Nat → Bool) (c : Nat) : List Nat × List Nat :=
  match mro bases c with
  | some l => (l, [])
  | none => (allbases bases ext c, [c])

/-- `Class.mro(include_external, include_self)` once `_mro` is set. -/
def classMro (bases : Nat → List Nat) (ext : Nat → Bool) (c : Nat)
    (includeExternal : Bool := false) (includeSelf : Bool := true) : List Nat :=
  let m := (initMro bases ext c).1
  let m := if includeExternal then m else m.filter (fun o => !ext o)
  if includeSelf then m else m.drop 1

/-- `Class.find(name)`: `for base in self.mro(): obj = base.contents.get(name); if obj is not
None: return obj`.  The object `base.contents[name]` is identified by its owner `base`. -/
def find (bases : Nat → List Nat) (ext : Nat → Bool) (owns : Nat → Nat → Bool) (c name : Nat) :
    Option Nat :=
  (classMro bases ext c).find? (fun b => owns b name)

/-- `Inheritable.docsources()` before commit d869973: members of different classes are related
by their spelling, class-private names (`__x`) included. -/
def docsourcesOld (bases : Nat → List Nat) (ext : Nat → Bool) (owns : Nat → Nat → Bool)
    (c name : Nat) : List Nat :=
  c :: (classMro bases ext c false false).filter (fun b => owns b name)

def getDocstringOld (bases : Nat → List Nat) (ext : Nat → Bool) (owns hasDoc : Nat → Nat → Bool)
    (c name : Nat) : Option Nat :=
  (docsourcesOld bases ext owns c name).find? (fun b => hasDoc b name)

/-- `Inheritable.docsources()` of the member `name` of class `c` (as owner classes):
`yield self; if not isinstance(self.parent, Class) or is_class_private(self.name): return; …`.
`priv name` = `model.is_class_private(name)` (starts with two underscores, does not end with two). -/
def docsources (bases : Nat → List Nat) (ext priv : Nat → Bool) (owns : Nat → Nat → Bool)
    (c name : Nat) : List Nat :=
  if priv name then [c] else docsourcesOld bases ext owns c name

/-- `get_docstring(obj)`: the first doc source whose docstring is not `None`
(`hasDoc owner name`); returns the source's owner. -/
def getDocstring (bases : Nat → List Nat) (ext priv : Nat → Bool) (owns hasDoc : Nat → Nat → Bool)
    (c name : Nat) : Option Nat :=
  (docsources bases ext priv owns c name).find? (fun b => hasDoc b name)

/-! ### consumers of the linearisation -/

/-- `Class.mro()` while `_mro` is still `None` (inside the AST visitors), before commit 7c3f474:
`list(self.allbases(include_self))`. -/
def classMroEarlyOld (bases : Nat → List Nat) (ext : Nat → Bool) (c : Nat) (includeSelf : Bool := true) :
    List Nat :=
  if includeSelf then allbases bases ext c
  else ((bases c).filter (fun b => !ext b)).flatMap (allbasesFuel bases ext c)

/-- `Class.mro()` while `_mro` is still `None` (inside the AST visitors):
```
try: early_mro = mro.mro(self, lambda c: [b for b in c.baseobjects if b is not None])
except (ValueError, RecursionError): return list(self.allbases(include_self))
return early_mro if include_self else early_mro[1:]
```
(`include_external` plays no role: the unresolved bases are not part of this order.) -/
def classMroEarly (bases : Nat → List Nat) (ext : Nat → Bool) (c : Nat) (includeSelf : Bool := true) :
    List Nat :=
  match mro (fun k => (bases k).filter fun b => !ext b) c with
  | some l => if includeSelf then l else l.drop 1
  | none => classMroEarlyOld bases ext c includeSelf

/-- `Class.find(name)` while `_mro` is still `None`: what `expandName` (an inherited nested class
named as a base, an alias of an inherited member) and `astbuilder._maybeAttribute` get during the visit. -/
def findEarly (bases : Nat → List Nat) (ext : Nat → Bool) (owns : Nat → Nat → Bool) (c name : Nat) :
    Option Nat :=
  (classMroEarly bases ext c).find? fun b => owns b name

/-- the same before commit 7c3f474 (depth-first `allbases` order) -/
def findEarlyOld (bases : Nat → List Nat) (ext : Nat → Bool) (owns : Nat → Nat → Bool) (c name : Nat) :
    Option Nat :=
  (classMroEarlyOld bases ext c).find? fun b => owns b name

/-- `is_exception(cls)`: `for base in cls.mro(True, False): if base in _STD_LIB_EXCEPTIONS: return True`.
`std b` = `b` is an unresolved base whose name is in the table (a `Class` object is never `in` a
tuple of strings). -/
def isException (bases : Nat → List Nat) (ext std : Nat → Bool) (c : Nat) : Bool :=
  (classMro bases ext c true false).any fun b => ext b && std b

/-- `_find_dunder_constructor(cls)`: `__new__` if `find` gives a `Function`; only when there is no
`__new__` at all, `__init__` if it is a `Function`.  Result: (owner, name). -/
def findDunderConstructor (bases : Nat → List Nat) (ext : Nat → Bool) (owns isFunc : Nat → Nat → Bool)
    (c newN initN : Nat) : Option (Nat × Nat) :=
  match find bases ext owns c newN with
  | some o => if isFunc o newN then some (o, newN) else none
  | none =>
    match find bases ext owns c initN with
    | some o => if isFunc o initN then some (o, initN) else none
    | none => none

/-- first loop of `pages.get_override_info(cls, member_name)`: the member it "overrides" —
`for b in cls.mro(include_self=False): if member_name not in b.contents: continue; …; break`. -/
def overridesOld (bases : Nat → List Nat) (ext : Nat → Bool) (owns : Nat → Nat → Bool) (c name : Nat) :
    Option Nat :=
  (classMro bases ext c false false).find? fun b => owns b name

/-- the same since commit d869973: `if model.is_class_private(member_name): return` comes first
(a mangled name overrides nothing and cannot be overridden) -/
def overrides (bases : Nat → List Nat) (ext priv : Nat → Bool) (owns : Nat → Nat → Bool) (c name : Nat) :
    Option Nat :=
  if priv name then none else overridesOld bases ext owns c name

-- second half of `get_override_info` ("overridden in"): `overriddenIn` below.

/-- `Class.subclasses` as `defaultPostProcess` fills it: the classes are visited in `order`,
`for b in cls.baseobjects: if b is not None: b.subclasses.append(cls)` (once per occurrence). -/
def subclassesOf (bases : Nat → List Nat) (order : List Nat) (c : Nat) : List Nat :=
  order.flatMap fun d => ((bases d).filter (· == c)).map fun _ => d

/-- `util.overriding_subclasses(classobj, name, firstcall)` as it was before commit 7da14b7
(no `_seen` set): a subclass is yielded once per base through which it is reached. -/
def overridingFuelOld (bases : Nat → List Nat) (order : List Nat) (owns : Nat → Nat → Bool)
    (visible : Nat → Bool) (name : Nat) : Nat → Nat → Bool → List Nat
  | 0, _, _ => []
  | f+1, c, firstcall =>
    if !firstcall && owns c name then [c]
    else ((subclassesOf bases order c).filter visible).flatMap fun s =>
      overridingFuelOld bases order owns visible name f s false

def overridingSubclassesOld (bases : Nat → List Nat) (order : List Nat) (owns : Nat → Nat → Bool)
    (visible : Nat → Bool) (c name : Nat) : List Nat :=
  overridingFuelOld bases order owns visible name (order.length + 1) c true

/-- `util.overriding_subclasses(classobj, name, firstcall, _seen)`: the generator threads the
mutable set `_seen`; result = (classes yielded in order, `_seen` afterwards).
```
if not firstcall and name in classobj.contents:
    if classobj not in _seen: _seen.add(classobj); yield classobj
else:
    for subclass in classobj.subclasses:
        if subclass.isVisible: yield from overriding_subclasses(subclass, name, False, _seen)
``` -/
def overridingFuel (bases : Nat → List Nat) (order : List Nat) (owns : Nat → Nat → Bool)
    (visible : Nat → Bool) (name : Nat) : Nat → Nat → Bool → List Nat → List Nat × List Nat
  | 0, _, _, seen => ([], seen)
  | f+1, c, firstcall, seen =>
    if !firstcall && owns c name then
      if seen.contains c then ([], seen) else ([c], c :: seen)
    else
      ((subclassesOf bases order c).filter visible).foldl
        (fun acc s =>
          let r := overridingFuel bases order owns visible name f s false acc.2
          (acc.1 ++ r.1, r.2))
        ([], seen)

def overridingSubclasses (bases : Nat → List Nat) (order : List Nat) (owns : Nat → Nat → Bool)
    (visible : Nat → Bool) (c name : Nat) : List Nat :=
  (overridingFuel bases order owns visible name (order.length + 1) c true []).1

/-- second half of `pages.get_override_info`: the classes listed as "overridden in" -/
def overriddenIn (bases : Nat → List Nat) (order : List Nat) (owns : Nat → Nat → Bool)
    (visible : Nat → Bool) (priv : Nat → Bool) (c name : Nat) : List Nat :=
  if priv name then [] else overridingSubclasses bases order owns visible c name

/-- `util.nested_bases(cls)`: for every prefix of `mro()` the chain `tuple(reversed(_mro[:i+1]))`,
given as (`baselist[0]`, `baselist[1:]`); `acc` is the reversed prefix walked so far. -/
def chains : List Nat → List Nat → List (Nat × List Nat)
  | _, [] => []
  | acc, x :: xs => (x, acc) :: chains (x :: acc) xs

def nestedBases (m : List Nat) : List (Nat × List Nat) := chains [] m

/-- `util.unmasked_attrs(baselist)`: members of `baselist[0]` that are visible and whose name is
not among the contents of `baselist[1:]`; `contents b` = names in definition order. -/
def unmaskedAttrs (contents : Nat → List Nat) (visible : Nat → Nat → Bool) (priv : Nat → Bool) (b : Nat)
    (rest : List Nat) : List (Nat × Nat) :=
  ((contents b).filter fun n =>
      visible b n && !(rest.any fun r => (contents r).contains n && !priv n)).map fun n => (b, n)
  -- `maybe_masking` leaves class-private names out (`if not model.is_class_private(o.name)`, d869973)

/-- `util.class_members(cls)` over `m = cls.mro()` -/
def classMembers (contents : Nat → List Nat) (visible : Nat → Nat → Bool) (priv : Nat → Bool) (m : List Nat) :
    List ((Nat × List Nat) × List (Nat × Nat)) :=
  ((nestedBases m).map fun p => (p, unmaskedAttrs contents visible priv p.1 p.2)).filter fun q => !q.2.isEmpty

/-- `util.inherited_members(cls)`: `len(inherited_via) > 1` -/
def inheritedMembers (contents : Nat → List Nat) (visible : Nat → Nat → Bool) (priv : Nat → Bool) (m : List Nat) :
    List (Nat × Nat) :=
  ((classMembers contents visible priv m).filter fun q => q.1.2.length + 1 > 1).flatMap (·.2)

/-! ### `compute_mro.init_finalbaseobjects`: the second pass of base resolution

What the AST pass left behind for class `o`: `raw o` the base names as written, `initial o` =
`_initialbaseobjects` (`none` where the name could not be resolved yet, e.g. inside an import
cycle), `expanded o` what `system.find_object` makes of the expanded names `_initialbases` now, `scope o` = `o.parent`; `resolve sc name` = `sc.resolveName(name)` when that is a `Class`.
`who cls o` is the scope in which a still unresolved base name of `o` is looked up while the MRO of
`cls` is being computed: the code uses `o.parent` (`who = fun _ o => scope o`). -/
structure Decls where
  scope : Nat → Nat
  raw : Nat → List Nat
  initial : Nat → List (Option Nat)
  /-- `system.find_object(o._initialbases[i])` (`LookupError` → `None`) when that is a `Class`:
  the expanded name followed through the aliases re-export moves left behind -/
  expanded : Nat → List (Option Nat)
  resolve : Nat → Nat → Option Nat

/-- the loop body `for (str_base, _), base in zip(o.rawbases, o._initialbaseobjects)`: keep a
resolved base, otherwise `resolveName` in scope `sc` -/
def finalOf (d : Decls) (sc o : Nat) : List (Option Nat) :=
  List.zipWith (fun n (ie : Option Nat × Option Nat) =>
      match ie.1 with
      | some b => some b
      | none =>
        match ie.2 with                -- the name as expanded where the class is defined comes first
        | some b => some b
        | none => d.resolve sc n)
    (d.raw o) (List.zip (d.initial o) (d.expanded o))

abbrev Cache := List (Nat × List (Option Nat))

def Cache.get (c : Cache) (o : Nat) : Option (List (Option Nat)) := (c.find? (·.1 == o)).map (·.2)

/-- `init_finalbaseobjects(o, path)` while computing the MRO of `cls`; `_finalbaseobjects` of all
classes is the cache (`if o._finalbaseobjects is not None: return`; nothing is stored when
`o.rawbases` is empty).  Fuel bounds the depth (acyclic hierarchies; the path check is not modelled). -/
def initFinal (d : Decls) (who : Nat → Nat → Nat) (cls : Nat) : Nat → Nat → Cache → Cache
  | 0, _, cache => cache
  | f+1, o, cache =>
    match cache.get o with
    | some _ => cache
    | none =>
      if (d.raw o).isEmpty then cache
      else
        let fb := finalOf d (who cls o) o
        let cache' := fb.foldl (fun c b => match b with | some b => initFinal d who cls f b c | none => c) cache
        (o, fb) :: cache'

/-- `defaultPostProcess`: `_init_mro` for every class in turn -/
def secondPass (d : Decls) (who : Nat → Nat → Nat) (fuel : Nat) (triggers : List Nat) : Cache :=
  triggers.foldl (fun c cls => initFinal d who cls fuel cls c) []

end Mro

namespace PyMro

/-- `tail_contains(tuple, whence, o)`: `o` occurs at an index `> whence`. -/
def tailContains (l : List Nat) (whence : Nat) (o : Nat) : Bool := (l.drop (whence + 1)).contains o

/-- outcome of one pass of the `for (i = 0; i < to_merge_size; i++)` loop of `pmerge` -/
inductive Scan
  | found (candidate : Nat)
  | notFound (emptyCnt : Nat)
  deriving DecidableEq, Repr

/-- The scan for the next candidate.  `all` is the whole `to_merge` array zipped with `remain`
(the parallel arrays `to_merge[i]`, `remain[i]` are one list of pairs), `rest` the part still to
scan, `e` the running `empty_cnt`. -/
def scan (all : List (List Nat × Nat)) : List (List Nat × Nat) → Nat → Scan
  | [], e => .notFound e
  | (l, r) :: rest, e =>
    match l[r]? with
    | none => scan all rest (e + 1)               -- remain[i] >= size: empty_cnt++; continue
    | some c =>
      if all.any (fun q => tailContains q.1 q.2 c) then scan all rest e   -- goto skip
      else .found c

/-- `if (remain[j] < size(j_lst) && j_lst[remain[j]] == candidate) remain[j]++` for every j -/
def bump (c : Nat) (ps : List (List Nat × Nat)) : List (List Nat × Nat) :=
  ps.map fun p => if p.1[p.2]? = some c then (p.1, p.2 + 1) else p

/-- `pmerge` from label `again:`; the accumulated `acc` is returned as `candidate :: rest`. -/
def pmergeFuel : Nat → List (List Nat × Nat) → Option (List Nat)
  | 0, _ => none
  | f+1, ps =>
    match scan ps ps 0 with
    | .found c => (pmergeFuel f (bump c ps)).map (c :: ·)
    | .notFound e => if e = ps.length then some [] else none   -- set_mro_error: TypeError

def pmerge (ls : List (List Nat)) : Option (List Nat) :=
  pmergeFuel (Mro.size ls + 1) (ls.map fun l => (l, 0))

/-- `check_duplicates(bases)` -/
def hasDup : List Nat → Bool
  | [] => false
  | x :: xs => xs.contains x || hasDup xs

/-- `mro_implementation(type)`; `lookup_tp_mro(base)` is the base's own (already computed) MRO —
a base whose creation failed does not exist, so nothing can be derived from it. -/
def mroFuel (bases : Nat → List Nat) : Nat → Nat → Option (List Nat)
  | 0, _ => none
  | f+1, c =>
    match Mro.mapOpt (mroFuel bases f) (bases c) with
    | none => none
    | some lins =>
      match lins with
      | [l] => some (c :: l)                       -- n == 1 fast path
      | _ =>
        if hasDup (bases c) then none              -- TypeError: duplicate base class
        else (pmerge (lins ++ [bases c])).map (c :: ·)

def mro (bases : Nat → List Nat) (c : Nat) : Option (List Nat) := mroFuel bases (c + 1) c

/-- `type_new`: a class statement without bases gets `(object,)`.  `object` is class 0 and is the
only class without bases. -/
def withObject (bases : Nat → List Nat) (c : Nat) : List Nat :=
  if c = 0 then [] else if (bases c).isEmpty then [0] else bases c

/-- The bases `type_new` sees after `update_bases` replaced every base that has `__mro_entries__`:
`A[T]` contributes `A`; `Generic[T]` contributes `Generic` unless a later base is a typing generic
alias too, then nothing (`typing._GenericAlias.__mro_entries__`).  Raw bases as in `Mro.localBases`
(in the hierarchies considered every subscripted base is a typing alias). -/
def mroEntries (gen : Nat → Bool) : List (Nat × Bool) → List Nat
  | [] => []
  | (b, _) :: rest =>
    if gen b && rest.any (·.2) then mroEntries gen rest else b :: mroEntries gen rest

/-- `_PyType_Lookup(type, name)`: the first class in `tp_mro` whose `__dict__` has the name. -/
def lookup (bases : Nat → List Nat) (owns : Nat → Nat → Bool) (c name : Nat) : Option Nat :=
  match mro bases c with
  | none => none
  | some l => l.find? (fun b => owns b name)

/-- The docstring a member without its own docstring gets by attribute lookup along the MRO:
the first class after `c` that defines `name` with a docstring. -/
def docSource (bases : Nat → List Nat) (owns hasDoc : Nat → Nat → Bool) (c name : Nat) :
    Option Nat :=
  if hasDoc c name then some c
  else
    match mro bases c with
    | none => none
    | some l => (l.drop 1).find? (fun b => owns b name && hasDoc b name)

/-- which user-defined `__new__`/`__init__` runs when the class is called: the first class of the
MRO (builtins excluded through `owns`) that defines `__new__`, else the same for `__init__`. -/
def constructorLookup (bases : Nat → List Nat) (owns isFunc : Nat → Nat → Bool) (c newN initN : Nat) :
    Option (Nat × Nat) :=
  match lookup bases owns c newN with
  | some o => if isFunc o newN then some (o, newN) else none
  | none =>
    match lookup bases owns c initN with
    | some o => if isFunc o initN then some (o, initN) else none
    | none => none

/-- what `super().name` finds in a method of class `c`: lookup along `__mro__` after `c` -/
def superLookup (bases : Nat → List Nat) (owns : Nat → Nat → Bool) (c name : Nat) : Option Nat :=
  match mro bases c with
  | none => none
  | some l => (l.drop 1).find? fun b => owns b name

/-- What `inspect.getdoc` does for a function without docstring (`inspect._finddoc`):
`for base in cls.__mro__: doc = getattr(base, name).__doc__; if doc is not None: return doc` —
each `getattr(base, name)` is itself a lookup along `base.__mro__`, so a base that merely inherits
the member answers with its own ancestors' definition.  Not the same walk as `docSource`
(see `PdProps.C05.getdoc_is_not_the_mro_walk`). -/
def inspectGetdoc (bases : Nat → List Nat) (owns hasDoc : Nat → Nat → Bool) (c name : Nat) :
    Option Nat :=
  if hasDoc c name then some c
  else
    match mro bases c with
    | none => none
    | some l => l.findSome? fun b =>
        match lookup bases owns b name with
        | some o => if hasDoc o name then some o else none
        | none => none

end PyMro
