import Generated.Tables
